(* C04 — the part of "no out-of-bounds access, no integer/pointer UB, no hangs" that a proof can
   carry: the logic that drives indices, sizes and loops, on the Gallina models of the code.
   Where a model does not expose an index, an instrumented twin (suffix _ix) is defined here,
   syntactically parallel to the model, that also returns the list of array indices it touches;
   [fst (twin x) = model x] is proved, then the bound on every recorded index. *)
From Upa Require Import Base.Prelude Impl.Tables Spec.Ip Impl.Ip Impl.Buffer Impl.FilePath Impl.Parser.
From Upa Require Import Proofs.Ipv4Proofs Proofs.Ipv6Proofs Properties_C11 Properties_C12.
From Coq Require Import ZifyBool ZifyN ZifyNat.
Local Open Scope N_scope.

Module B := Upa.Impl.Buffer.
Module F := Upa.Impl.FilePath.

(* ====================================================================== *)
(* 4. Buffer growth: simple_buffer / util size arithmetic                 *)
(* ====================================================================== *)

Lemma W64_eq : W64 = 2 ^ 64. Proof. reflexivity. Qed.

Lemma wrap64_small x : x < W64 -> wrap64 x = x.
Proof. intro H. unfold wrap64. apply N.mod_small. exact H. Qed.

Lemma wrap64_lt x : wrap64 x < W64.
Proof. unfold wrap64. apply N.mod_lt. discriminate. Qed.

(* max_size() - n1 in size_t, for n1 <= M: no borrow *)
Lemma wrap64_sub M n1 : M < W64 -> n1 <= M -> wrap64 (M + W64 - n1) = M - n1.
Proof.
  intros HM Hn. unfold wrap64.
  replace (M + W64 - n1) with ((M - n1) + 1 * W64) by lia.
  rewrite N.mod_add by discriminate. apply N.mod_small. lia.
Qed.

(* ---- simple_buffer::add_sizes ---- *)

Lemma add_sizes_ok M n1 n2 r : M < W64 -> n1 <= M ->
  buf_add_sizes M n1 n2 = SzOk r -> r = n1 + n2 /\ r <= M.
Proof.
  intros HM Hn. unfold buf_add_sizes. rewrite (wrap64_sub M n1 HM Hn).
  destruct (N.leb_spec n2 (M - n1)) as [Hle|Hgt]; [|discriminate].
  intro E. injection E as <-. rewrite wrap64_small by lia. lia.
Qed.

Lemma add_sizes_err M n1 n2 : M < W64 -> n1 <= M ->
  (buf_add_sizes M n1 n2 = SzLengthError <-> M < n1 + n2).
Proof.
  intros HM Hn. unfold buf_add_sizes. rewrite (wrap64_sub M n1 HM Hn).
  destruct (N.leb_spec n2 (M - n1)) as [Hle|Hgt]; split; intro H; try discriminate; try reflexivity; lia.
Qed.

(* ---- util::add_sizes ---- *)

Lemma util_add_sizes_ok size1 size2 M r : M < W64 -> size1 <= M ->
  util_add_sizes size1 size2 M = SzOk r -> r = size1 + size2 /\ r <= M.
Proof.
  intros HM Hn. unfold util_add_sizes. rewrite (wrap64_sub M size1 HM Hn).
  destruct (N.ltb_spec (M - size1) size2) as [Hgt|Hle]; [discriminate|].
  intro E. injection E as <-. rewrite wrap64_small by lia. lia.
Qed.

Lemma util_add_sizes_err size1 size2 M : M < W64 -> size1 <= M ->
  (util_add_sizes size1 size2 M = SzLengthError <-> M < size1 + size2).
Proof.
  intros HM Hn. unfold util_add_sizes. rewrite (wrap64_sub M size1 HM Hn).
  destruct (N.ltb_spec (M - size1) size2) as [Hgt|Hle]; split; intro H; try discriminate; try reflexivity; lia.
Qed.

(* ---- simple_buffer::grow ---- *)

(* twin of grow_loop that separates the two ways of returning SzLengthError *)
Inductive grow_res := GOk (n : N) | GGuard | GFuel.

Fixpoint grow_loop_t (fuel : nat) (M new_cap min_cap : N) : grow_res :=
  match fuel with
  | O => GFuel
  | S f =>
      if N.shiftr M 1 <? new_cap then GGuard
      else let nc := wrap64 (new_cap * 2) in
           if nc <? min_cap then grow_loop_t f M nc min_cap else GOk nc
  end.

Definition erase_grow (g : grow_res) : sz_res :=
  match g with GOk n => SzOk n | GGuard => SzLengthError | GFuel => SzLengthError end.

Lemma grow_loop_t_erase fuel : forall M nc mc,
  erase_grow (grow_loop_t fuel M nc mc) = grow_loop fuel M nc mc.
Proof.
  induction fuel as [|f IH]; intros M nc mc; [reflexivity|].
  cbn [grow_loop_t grow_loop].
  destruct (N.shiftr M 1 <? nc); [reflexivity|].
  cbv zeta. destruct (wrap64 (nc * 2) <? mc); [apply IH|reflexivity].
Qed.

Lemma shiftr1 M : N.shiftr M 1 = M / 2.
Proof. rewrite N.shiftr_div_pow2. reflexivity. Qed.

(* the fuel is never exhausted: M/2 < new_cap * 2^f *)
Lemma grow_loop_t_fuel f : forall M nc mc, M < W64 ->
  M / 2 < nc * 2 ^ N.of_nat f -> grow_loop_t (S f) M nc mc <> GFuel.
Proof.
  induction f as [|f IH]; intros M nc mc HM Hf.
  - cbn [grow_loop_t]. rewrite shiftr1.
    destruct (N.ltb_spec (M / 2) nc) as [Hg|Hg]; [discriminate|].
    cbn in Hf. exfalso. lia.
  - remember (S f) as f1 eqn:Ef1. cbn [grow_loop_t]. rewrite shiftr1.
    destruct (N.ltb_spec (M / 2) nc) as [Hg|Hg]; [discriminate|].
    cbv zeta. assert (Hnc : nc * 2 <= M).
    { clear - Hg. pose proof (N.div_mod M 2 ltac:(discriminate)). lia. }
    rewrite wrap64_small by lia.
    destruct (nc * 2 <? mc); [|discriminate].
    subst f1. apply IH; [exact HM|].
    rewrite Nat2N.inj_succ, N.pow_succ_r' in Hf. lia.
Qed.

(* functional description of a successful run, and of the guard *)
Lemma grow_loop_t_ok fuel : forall M nc mc r, M < W64 ->
  grow_loop_t fuel M nc mc = GOk r ->
  exists k, r = nc * 2 ^ (k + 1) /\ mc <= r /\ r <= M /\
            (forall j, 1 <= j -> j <= k -> nc * 2 ^ j < mc).
Proof.
  induction fuel as [|f IH]; intros M nc mc r HM; [discriminate|].
  cbn [grow_loop_t]. rewrite shiftr1.
  destruct (N.ltb_spec (M / 2) nc) as [Hg|Hg]; [discriminate|].
  cbv zeta. assert (Hnc : nc * 2 <= M).
  { clear - Hg. pose proof (N.div_mod M 2 ltac:(discriminate)). lia. }
  rewrite wrap64_small by lia.
  destruct (N.ltb_spec (nc * 2) mc) as [Hlt|Hge].
  - intro E. destruct (IH M (nc * 2) mc r HM E) as (k & Hr & Hmc & HrM & Hall).
    exists (k + 1). repeat split; try assumption.
    + rewrite Hr. rewrite (N.pow_add_r 2 (k + 1) 1). change (2 ^ 1) with 2. lia.
    + intros j Hj1 Hjk. destruct (N.eq_dec j 1) as [->|Hne]; [change (2 ^ 1) with 2; exact Hlt|].
      specialize (Hall (j - 1) ltac:(lia) ltac:(lia)).
      replace j with (j - 1 + 1) by lia. rewrite N.pow_add_r. change (2 ^ 1) with 2. lia.
  - intro E. injection E as <-. exists 0. change (2 ^ (0 + 1)) with 2.
    repeat split; try assumption. intros j H1 H0. lia.
Qed.

Lemma grow_loop_t_guard fuel : forall M nc mc, M < W64 ->
  grow_loop_t fuel M nc mc = GGuard ->
  exists k, M / 2 < nc * 2 ^ k /\ (k = 0 \/ nc * 2 ^ k < mc).
Proof.
  induction fuel as [|f IH]; intros M nc mc HM; [discriminate|].
  cbn [grow_loop_t]. rewrite shiftr1.
  destruct (N.ltb_spec (M / 2) nc) as [Hg|Hg].
  - intros _. exists 0. rewrite N.pow_0_r, N.mul_1_r. split; [exact Hg|left; reflexivity].
  - cbv zeta. assert (Hnc : nc * 2 <= M).
    { clear - Hg. pose proof (N.div_mod M 2 ltac:(discriminate)). lia. }
    rewrite wrap64_small by lia.
    destruct (N.ltb_spec (nc * 2) mc) as [Hlt|Hge]; [|discriminate].
    intro E. destruct (IH M (nc * 2) mc HM E) as (k & Hk & Hor).
    exists (k + 1). rewrite N.pow_add_r. change (2 ^ 1) with 2.
    replace (nc * (2 ^ k * 2)) with (nc * 2 * 2 ^ k) by lia.
    split; [exact Hk|]. right. destruct Hor as [->|Hor]; [rewrite N.pow_0_r; lia|exact Hor].
Qed.

Definition grow_start (capacity : N) : N := if capacity =? 0 then 16 else capacity.

Lemma grow_start_pos c : 1 <= grow_start c.
Proof. unfold grow_start. destruct (N.eqb_spec c 0); lia. Qed.

Definition buf_grow_t (M capacity min_cap : N) : grow_res :=
  grow_loop_t 70 M (grow_start capacity) min_cap.

Lemma buf_grow_t_erase M c mc : erase_grow (buf_grow_t M c mc) = buf_grow M c mc.
Proof. unfold buf_grow_t, buf_grow, grow_start. apply grow_loop_t_erase. Qed.

(* the loop of grow() runs at most 64 times: the fuel 70 of the model is never used up *)
Lemma buf_grow_fuel M c mc : M < 2 ^ 63 -> buf_grow_t M c mc <> GFuel.
Proof.
  intro HM. unfold buf_grow_t. change 70%nat with (S 69).
  apply grow_loop_t_fuel.
  - rewrite W64_eq. clear - HM. change (2 ^ 63) with 9223372036854775808 in HM.
    change (2 ^ 64) with 18446744073709551616. lia.
  - pose proof (grow_start_pos c) as Hs.
    change (2 ^ N.of_nat 69) with 590295810358705651712.
    change (2 ^ 63) with 9223372036854775808 in HM.
    clear - HM Hs. lia.
Qed.

Lemma M63_W64 M : M < 2 ^ 63 -> M < W64.
Proof. change (2 ^ 63) with 9223372036854775808. unfold W64. lia. Qed.

Lemma grow_ok M c mc nc : M < 2 ^ 63 ->
  buf_grow M c mc = SzOk nc ->
  exists k, nc = grow_start c * 2 ^ (k + 1) /\ mc <= nc /\ nc <= M /\ c < nc /\
            (forall j, 1 <= j -> j <= k -> grow_start c * 2 ^ j < mc).
Proof.
  intros HM E. rewrite <- buf_grow_t_erase in E.
  destruct (buf_grow_t M c mc) as [r| |] eqn:Et; try discriminate.
  injection E as ->. unfold buf_grow_t in Et.
  destruct (grow_loop_t_ok _ _ _ _ _ (M63_W64 M HM) Et) as (k & Hr & H1 & H2 & H3).
  exists k. repeat split; try assumption.
  rewrite Hr. assert (2 <= 2 ^ (k + 1)).
  { rewrite N.pow_add_r. change (2 ^ 1) with 2. assert (2 ^ k <> 0) by (apply N.pow_nonzero; discriminate). lia. }
  pose proof (grow_start_pos c). unfold grow_start in *. destruct (N.eqb_spec c 0); nia.
Qed.

(* length_error comes from the explicit overflow guard only, and only when doubling the
   current candidate would pass max_size *)
Lemma grow_err M c mc : M < 2 ^ 63 ->
  buf_grow M c mc = SzLengthError ->
  buf_grow_t M c mc = GGuard /\
  exists k, M / 2 < grow_start c * 2 ^ k /\ (k = 0 \/ grow_start c * 2 ^ k < mc).
Proof.
  intros HM E. rewrite <- buf_grow_t_erase in E.
  pose proof (buf_grow_fuel M c mc HM) as Hf.
  destruct (buf_grow_t M c mc) as [r| |] eqn:Et; try discriminate; [|congruence].
  split; [reflexivity|]. unfold buf_grow_t in Et.
  exact (grow_loop_t_guard _ _ _ _ (M63_W64 M HM) Et).
Qed.

Lemma grow_err_only_if M c mc : M < 2 ^ 63 ->
  buf_grow M c mc = SzLengthError -> M / 2 < grow_start c \/ M / 2 < mc.
Proof.
  intros HM E. destruct (grow_err M c mc HM E) as (_ & k & Hk & [->|Hor]).
  - left. rewrite N.pow_0_r, N.mul_1_r in Hk. exact Hk.
  - right. lia.
Qed.

(* conversely: when both the start value and the request are at most max_size/2, grow succeeds *)
Lemma grow_loop_t_succeeds fuel : forall M nc mc, M < W64 -> 1 <= nc ->
  nc <= M / 2 -> mc <= M / 2 + 1 -> grow_loop_t fuel M nc mc <> GGuard.
Proof.
  induction fuel as [|f IH]; intros M nc mc HM H1 Hnc Hmc; [discriminate|].
  cbn [grow_loop_t]. rewrite shiftr1.
  destruct (N.ltb_spec (M / 2) nc) as [Hg|Hg]; [lia|].
  cbv zeta. assert (Hnc2 : nc * 2 <= M).
  { clear - Hg. pose proof (N.div_mod M 2 ltac:(discriminate)). lia. }
  rewrite wrap64_small by lia.
  destruct (N.ltb_spec (nc * 2) mc) as [Hlt|Hge]; [|discriminate].
  apply IH; try assumption; lia.
Qed.

Lemma grow_succeeds M c mc : M < 2 ^ 63 -> grow_start c <= M / 2 -> mc <= M / 2 + 1 ->
  exists nc, buf_grow M c mc = SzOk nc.
Proof.
  intros HM Hc Hmc. rewrite <- buf_grow_t_erase.
  pose proof (buf_grow_fuel M c mc HM) as Hf.
  pose proof (grow_loop_t_succeeds 70 M (grow_start c) mc (M63_W64 M HM) (grow_start_pos c) Hc Hmc) as Hg.
  fold (buf_grow_t M c mc) in Hg.
  destruct (buf_grow_t M c mc) as [r| |]; try congruence. exists r. reflexivity.
Qed.

(* ---- push_back / append ---- *)

Lemma push_back_ok M size capacity size' capacity' : M < 2 ^ 63 ->
  size <= capacity -> capacity <= M ->
  buf_push_back M size capacity = Some (size', capacity') ->
  size' = size + 1 /\ size' <= capacity' /\ capacity' <= M /\ capacity <= capacity'.
Proof.
  intros HM Hsc HcM. unfold buf_push_back.
  destruct (N.ltb_spec size capacity) as [Hlt|Hge].
  - intro E. injection E as <- <-. lia.
  - destruct (buf_add_sizes M size 1) as [want|] eqn:Ea; [|discriminate].
    destruct (add_sizes_ok M size 1 want (M63_W64 M HM) ltac:(lia) Ea) as (-> & Hw).
    destruct (buf_grow M capacity (size + 1)) as [nc|] eqn:Eg; [|discriminate].
    destruct (grow_ok M capacity (size + 1) nc HM Eg) as (k & _ & Hmin & HncM & Hcnc & _).
    intro E. injection E as <- <-. lia.
Qed.

Lemma append_ok M size capacity ncopy size' capacity' : M < 2 ^ 63 ->
  size <= capacity -> capacity <= M ->
  buf_append M size capacity ncopy = Some (size', capacity') ->
  size' = size + ncopy /\ size' <= capacity' /\ capacity' <= M /\ capacity <= capacity'.
Proof.
  intros HM Hsc HcM. unfold buf_append.
  destruct (buf_add_sizes M size ncopy) as [ns|] eqn:Ea; [|discriminate].
  destruct (add_sizes_ok M size ncopy ns (M63_W64 M HM) ltac:(lia) Ea) as (-> & Hw).
  destruct (N.ltb_spec capacity (size + ncopy)) as [Hlt|Hge].
  - destruct (buf_grow M capacity (size + ncopy)) as [nc|] eqn:Eg; [|discriminate].
    destruct (grow_ok M capacity (size + ncopy) nc HM Eg) as (k & _ & Hmin & HncM & Hcnc & _).
    intro E. injection E as <- <-. lia.
  - intro E. injection E as <- <-. lia.
Qed.

(* ---- util::checked_diff<ptrdiff_t> ---- *)

Lemma wrap64_sub_le a b : a < W64 -> b <= a -> wrap64 (a + W64 - b) = a - b.
Proof. intros Ha Hb. apply wrap64_sub; assumption. Qed.

Lemma checked_diff_sound a b z : a < W64 -> b < W64 ->
  checked_diff_ptrdiff a b = DiffOk z ->
  z = (Z.of_N a - Z.of_N b)%Z /\ (- 2 ^ 63 <= z < 2 ^ 63)%Z.
Proof.
  intros Ha Hb. unfold checked_diff_ptrdiff.
  destruct (N.leb_spec b a) as [Hle|Hgt].
  - rewrite (wrap64_sub_le a b Ha Hle).
    destruct (N.leb_spec (a - b) 9223372036854775807) as [Hd|Hd]; [|discriminate].
    intro E. injection E as <-. change (2 ^ 63)%Z with 9223372036854775808%Z. lia.
  - rewrite (wrap64_sub_le b a Hb ltac:(lia)).
    destruct (N.leb_spec (b - a) 9223372036854775808) as [Hd|Hd]; [|discriminate].
    intro E. injection E as <-. change (2 ^ 63)%Z with 9223372036854775808%Z. lia.
Qed.

Lemma checked_diff_total a b : a < 2 ^ 63 -> b < 2 ^ 63 ->
  checked_diff_ptrdiff a b = DiffOk (Z.of_N a - Z.of_N b)%Z.
Proof.
  change (2 ^ 63) with 9223372036854775808. intros Ha Hb.
  assert (Ha' : a < W64) by (unfold W64; lia). assert (Hb' : b < W64) by (unfold W64; lia).
  unfold checked_diff_ptrdiff.
  destruct (N.leb_spec b a) as [Hle|Hgt].
  - rewrite (wrap64_sub_le a b Ha' Hle).
    destruct (N.leb_spec (a - b) 9223372036854775807) as [Hd|Hd]; [|lia].
    f_equal. lia.
  - rewrite (wrap64_sub_le b a Hb' ltac:(lia)).
    destruct (N.leb_spec (b - a) 9223372036854775808) as [Hd|Hd]; [|lia].
    f_equal. lia.
Qed.

(* length_error exactly when the mathematical difference is not a ptrdiff_t *)
Lemma checked_diff_err a b : a < W64 -> b < W64 ->
  (checked_diff_ptrdiff a b = DiffLengthError <->
   ~ (- 2 ^ 63 <= Z.of_N a - Z.of_N b < 2 ^ 63)%Z).
Proof.
  intros Ha Hb. unfold checked_diff_ptrdiff. change (2 ^ 63)%Z with 9223372036854775808%Z.
  destruct (N.leb_spec b a) as [Hle|Hgt].
  - rewrite (wrap64_sub_le a b Ha Hle).
    destruct (N.leb_spec (a - b) 9223372036854775807) as [Hd|Hd]; split; intro H;
      try discriminate; try reflexivity; lia.
  - rewrite (wrap64_sub_le b a Hb ltac:(lia)).
    destruct (N.leb_spec (b - a) 9223372036854775808) as [Hd|Hd]; split; intro H;
      try discriminate; try reflexivity; lia.
Qed.

(* ---- util::unsigned_to_str<uint32_t>: the digit-count loop ---- *)

Lemma wrap32_small x : x < 4294967296 -> wrap32 x = x.
Proof. intro H. unfold wrap32. apply N.mod_small. exact H. Qed.

(* divider = base^j, count = j+1; enough fuel: num0 < base^(j+f) *)
Lemma u2s_count_spec f : forall base num0 j, 2 <= base -> num0 * base < 4294967296 ->
  num0 < base ^ (j + N.of_nat f) ->
  exists j', j <= j' /\ u2s_count (S f) base num0 (base ^ j) (j + 1) = Some (j' + 1) /\
             num0 < base ^ j' /\ (j' = j \/ base ^ (j' - 1) <= num0).
Proof.
  induction f as [|f IH]; intros base num0 j Hb Hn Hf.
  - cbn [u2s_count]. rewrite N.add_0_r in Hf.
    destruct (N.leb_spec (base ^ j) num0) as [Hle|Hgt]; [lia|].
    exists j. repeat split; lia.
  - remember (S f) as f1 eqn:Ef1. cbn [u2s_count].
    destruct (N.leb_spec (base ^ j) num0) as [Hle|Hgt].
    + assert (Hm : base ^ j * base <= num0 * base) by (apply N.mul_le_mono_r; exact Hle).
      rewrite wrap32_small by lia.
      replace (base ^ j * base) with (base ^ (j + 1)) by (rewrite N.pow_add_r, N.pow_1_r; reflexivity).
      subst f1. destruct (IH base num0 (j + 1) Hb Hn) as (j' & Hj & Hr & Hlt & Hor).
      { rewrite Nat2N.inj_succ in Hf. replace (j + 1 + N.of_nat f) with (j + N.succ (N.of_nat f)) by lia. exact Hf. }
      exists j'. split; [lia|]. split; [exact Hr|]. split; [exact Hlt|]. right.
      destruct Hor as [->|Hor]; [|exact Hor]. replace (j + 1 - 1) with j by lia. exact Hle.
    + exists j. repeat split; lia.
Qed.

Lemma pow2_le_pow base k : 2 <= base -> 2 ^ k <= base ^ k.
Proof. intro H. apply N.pow_le_mono_l. exact H. Qed.

Lemma u2s_digits num base : num < 2 ^ 32 -> 2 <= base ->
  exists k, unsigned_to_str_digits num base = Some k /\ 1 <= k /\
            num < base ^ k /\ (k = 1 \/ base ^ (k - 1) <= num).
Proof.
  change (2 ^ 32) with 4294967296. intros Hn Hb. unfold unsigned_to_str_digits.
  assert (Hb0 : base <> 0) by lia.
  pose proof (N.div_mod num base Hb0) as Hdm. pose proof (N.mod_lt num base Hb0) as Hml.
  set (num0 := num / base) in *.
  assert (Hn0 : num0 * base < 4294967296) by lia.
  destruct (u2s_count_spec 39 base num0 0 Hb Hn0) as (j' & _ & Hr & Hlt & Hor).
  { rewrite N.add_0_l. eapply N.lt_le_trans; [|apply pow2_le_pow; exact Hb].
    change (2 ^ N.of_nat 39) with 549755813888. nia. }
  rewrite N.pow_0_r in Hr. change (0 + 1) with 1 in Hr. change 40%nat with (S 39).
  exists (j' + 1). split; [exact Hr|]. split; [lia|]. split.
  - rewrite N.pow_add_r, N.pow_1_r. nia.
  - destruct Hor as [->|Hor]; [left; reflexivity|right].
    replace (j' + 1 - 1) with (j' - 1 + 1) by (assert (j' <> 0) by (intros ->; cbn in Hor; lia); lia).
    rewrite N.pow_add_r, N.pow_1_r. nia.
Qed.

(* the same loop as modelled in Impl.Ip (no option): its u32 is the identity too *)
Lemma count_digits_of_u2s fuel : forall base num0 divider count k,
  u2s_count fuel base num0 divider count = Some k ->
  Impl.Ip.count_digits fuel base num0 divider count = k.
Proof.
  induction fuel as [|f IH]; intros base num0 d c k; [discriminate|].
  cbn [u2s_count Impl.Ip.count_digits].
  destruct (d <=? num0); [apply IH|]. intro E. injection E as <-. reflexivity.
Qed.

(* ====================================================================== *)
(* 6. port number fits an int                                             *)
(* ====================================================================== *)

Lemma port_fold_bound d : forall acc, Forall (fun c => is_ascii_digit c = true) d ->
  fold_left (fun a ch => a * 10 + (ch - 48)) d acc + 1 <= (acc + 1) * 10 ^ N.of_nat (length d).
Proof.
  induction d as [|c d IH]; intros acc Hd.
  - cbn. lia.
  - inversion Hd as [|c' d' Hc Hd']; subst. cbn [fold_left length].
    rewrite Nat2N.inj_succ, N.pow_succ_r'.
    eapply N.le_trans; [apply IH; exact Hd'|].
    rewrite N.mul_assoc. apply N.mul_le_mono_r.
    unfold is_ascii_digit in Hc. clear - Hc. lia.
Qed.

Lemma port_int d : Forall (fun c => is_ascii_digit c = true) d -> (length d <= 5)%nat ->
  Impl.Parser.port_from_digits d <= 99999.
Proof.
  intros Hd Hl. unfold Impl.Parser.port_from_digits.
  pose proof (port_fold_bound d 0 Hd) as H.
  assert (Hp : 10 ^ N.of_nat (length d) <= 10 ^ 5) by (apply N.pow_le_mono_r; [discriminate|lia]).
  change (10 ^ 5) with 100000 in Hp. lia.
Qed.

(* ====================================================================== *)
(* 5. has_dot_dot_segment: every read stays inside [first, last)          *)
(* ====================================================================== *)

(* twin of find_dot that records every index handed to nthN *)
Fixpoint find_dot_ix (s : str) (i n : nat) : option nat * list nat :=
  match n with
  | O => (None, [])
  | S n' => match nthN s i with
            | Some c => if c =? 46 then (Some i, [i])
                        else let '(r, ix) := find_dot_ix s (S i) n' in (r, i :: ix)
            | None => (None, [i])
            end
  end.

(* twin of dot_dot_loop; the reads of *(ptr-1) and ptr[2] are recorded exactly when the C++
   short-circuit && / || evaluates them; it also records every value the pointer ptr takes
   (second list), which may be one past the end but no further *)
Fixpoint dot_dot_loop_ix (fuel : nat) (s : str) (is_slash : N -> bool) (ptr : nat)
  : bool * list nat * list nat :=
  match fuel with
  | O => (false, [], [])
  | S fuel' =>
    let last := length s in
    let end_ := (last - 1)%nat in
    let '(fd, ix0) := find_dot_ix s ptr (end_ - ptr) in
    match fd with
    | None => (false, ix0, [])
    | Some q =>
        let c1 := unit_at s (S q) =? 46 in
        let ix1 := [S q] in
        let ix2 := if c1 && negb (q =? 0)%nat then [(q - 1)%nat] else [] in
        let c2 := (q =? 0)%nat || is_slash (unit_at s (q - 1)) in
        let ix3 := if c1 && c2 && negb (last - q =? 2)%nat then [(q + 2)%nat] else [] in
        if c1 && c2 && ((last - q =? 2)%nat || is_slash (unit_at s (q + 2)))
        then (true, ix0 ++ ix1 ++ ix2 ++ ix3, [])
        else let ptr' := (q + 2)%nat in
             if (end_ <=? ptr')%nat then (false, ix0 ++ ix1 ++ ix2 ++ ix3, [ptr'])
             else let '(r, ix, ps) := dot_dot_loop_ix fuel' s is_slash ptr' in
                  (r, ix0 ++ ix1 ++ ix2 ++ ix3 ++ ix, ptr' :: ps)
    end
  end.

Definition has_dot_dot_segment_ix (is_slash : N -> bool) (s : str) : bool * list nat * list nat :=
  if (2 <=? length s)%nat then dot_dot_loop_ix (S (length s)) s is_slash 0 else (false, [], []).

Lemma find_dot_ix_fst s : forall n i, fst (find_dot_ix s i n) = find_dot s i n.
Proof.
  induction n as [|n IH]; intro i; [reflexivity|].
  cbn [find_dot_ix find_dot]. destruct (nthN s i) as [c|]; [|reflexivity].
  destruct (c =? 46); [reflexivity|].
  specialize (IH (S i)). destruct (find_dot_ix s (S i) n) as [r ix]. exact IH.
Qed.

Lemma find_dot_ix_bound s : forall n i bound, (i + n <= bound)%nat ->
  Forall (fun k => (k < bound)%nat) (snd (find_dot_ix s i n)) /\
  (forall q, fst (find_dot_ix s i n) = Some q -> (i <= q < i + n)%nat).
Proof.
  induction n as [|n IH]; intros i bound Hb; [split; [constructor|discriminate]|].
  cbn [find_dot_ix]. destruct (nthN s i) as [c|].
  - destruct (c =? 46).
    + cbn [fst snd]. split; [constructor; [lia|constructor]|]. intros q E. injection E as <-. lia.
    + destruct (IH (S i) bound ltac:(lia)) as [H1 H2].
      destruct (find_dot_ix s (S i) n) as [r ix]. cbn [fst snd] in *.
      split; [constructor; [lia|exact H1]|]. intros q E. specialize (H2 q E). lia.
  - cbn [fst snd]. split; [constructor; [lia|constructor]|discriminate].
Qed.

Lemma dot_dot_loop_ix_fst fuel s is_slash : forall ptr,
  fst (fst (dot_dot_loop_ix fuel s is_slash ptr)) = dot_dot_loop fuel s is_slash ptr.
Proof.
  induction fuel as [|f IH]; intro ptr; [reflexivity|].
  cbn [dot_dot_loop_ix dot_dot_loop]. cbv zeta.
  pose proof (find_dot_ix_fst s (length s - 1 - ptr) ptr) as Hf.
  destruct (find_dot_ix s ptr (length s - 1 - ptr)) as [fd ix0]. cbn [fst] in Hf. rewrite <- Hf.
  destruct fd as [q|]; [|reflexivity].
  destruct ((unit_at s (S q) =? 46) && ((q =? 0)%nat || is_slash (unit_at s (q - 1))) &&
            ((length s - q =? 2)%nat || is_slash (unit_at s (q + 2)))); [reflexivity|].
  destruct (length s - 1 <=? q + 2)%nat; [reflexivity|].
  specialize (IH (q + 2)%nat). destruct (dot_dot_loop_ix f s is_slash (q + 2)) as [[r ix] ps]. exact IH.
Qed.

Lemma has_dot_dot_segment_ix_fst is_slash s :
  fst (fst (has_dot_dot_segment_ix is_slash s)) = has_dot_dot_segment is_slash s.
Proof.
  unfold has_dot_dot_segment_ix, has_dot_dot_segment.
  destruct (2 <=? length s)%nat; [apply dot_dot_loop_ix_fst|reflexivity].
Qed.

Lemma Forall_app_intro {A} (P : A -> Prop) l1 l2 : Forall P l1 -> Forall P l2 -> Forall P (l1 ++ l2).
Proof. intros H1 H2. apply Forall_app. split; assumption. Qed.

Lemma dot_dot_loop_ix_bound fuel s is_slash : forall ptr, (ptr < length s - 1)%nat ->
  Forall (fun k => (k < length s)%nat) (snd (fst (dot_dot_loop_ix fuel s is_slash ptr))) /\
  Forall (fun p => (p <= length s)%nat) (snd (dot_dot_loop_ix fuel s is_slash ptr)).
Proof.
  induction fuel as [|f IH]; intros ptr Hptr; [split; constructor|].
  cbn [dot_dot_loop_ix]. cbv zeta.
  destruct (find_dot_ix_bound s (length s - 1 - ptr) ptr (length s - 1)%nat ltac:(lia)) as [Hix0 Hq].
  destruct (find_dot_ix s ptr (length s - 1 - ptr)) as [fd ix0]. cbn [fst snd] in Hix0, Hq.
  assert (Hix0' : Forall (fun k => (k < length s)%nat) ix0).
  { eapply Forall_impl; [|exact Hix0]. cbv beta. intros; lia. }
  destruct fd as [q|]; [|cbn [fst snd]; split; [exact Hix0'|constructor]].
  specialize (Hq q eq_refl).
  set (c1 := unit_at s (S q) =? 46).
  set (c2 := (q =? 0)%nat || is_slash (unit_at s (q - 1))).
  assert (H1 : Forall (fun k => (k < length s)%nat) [S q]) by (constructor; [lia|constructor]).
  assert (H2 : Forall (fun k => (k < length s)%nat) (if c1 && negb (q =? 0)%nat then [(q - 1)%nat] else [])).
  { destruct (c1 && negb (q =? 0)%nat); constructor; [lia|constructor]. }
  assert (H3 : Forall (fun k => (k < length s)%nat)
                 (if c1 && c2 && negb (length s - q =? 2)%nat then [(q + 2)%nat] else [])).
  { destruct (Nat.eqb_spec (length s - q) 2) as [E|E]; [rewrite andb_false_r; constructor|].
    destruct (c1 && c2); cbn [andb negb]; constructor; [lia|constructor]. }
  destruct (c1 && c2 && ((length s - q =? 2)%nat || is_slash (unit_at s (q + 2)))).
  - cbn [fst snd]. split; [|constructor]. repeat apply Forall_app_intro; assumption.
  - destruct (Nat.leb_spec (length s - 1) (q + 2)) as [Hle|Hgt].
    + cbn [fst snd]. split; [repeat apply Forall_app_intro; assumption|]. constructor; [lia|constructor].
    + destruct (IH (q + 2)%nat Hgt) as [Ha Hb].
      destruct (dot_dot_loop_ix f s is_slash (q + 2)) as [[r ix] ps]. cbn [fst snd] in *.
      split; [repeat apply Forall_app_intro; assumption|]. constructor; [lia|exact Hb].
Qed.

Lemma dotdot_reads_in_range is_slash s :
  Forall (fun k => (k < length s)%nat) (snd (fst (has_dot_dot_segment_ix is_slash s))) /\
  Forall (fun p => (p <= length s)%nat) (snd (has_dot_dot_segment_ix is_slash s)).
Proof.
  unfold has_dot_dot_segment_ix.
  destruct (Nat.leb_spec 2 (length s)) as [H|H]; [|split; constructor].
  apply dot_dot_loop_ix_bound. lia.
Qed.

(* every unit_at the model evaluates at a recorded index is a genuine element (never the default) *)
Lemma unit_at_in_range s i : (i < length s)%nat -> exists c, nthN s i = Some c /\ unit_at s i = c.
Proof.
  revert i. induction s as [|x s IH]; intros i Hi; [cbn in Hi; lia|].
  destruct i as [|i]; [exists x; split; reflexivity|].
  cbn [length] in Hi. destruct (IH i ltac:(lia)) as (c & Hc & Hu).
  exists c. unfold unit_at in *. cbn [nthN]. rewrite Hc in *. split; [reflexivity|exact Hu].
Qed.

(* ====================================================================== *)
(* 1. IPv4: part[6] and number[4]                                         *)
(* ====================================================================== *)

Lemma ipv4_split_bound_gen s : forall cur parts dc parts' cur' dc',
  (dc <= 4)%nat -> length parts = dc ->
  ipv4_split s cur parts dc = Some (parts', cur', dc') ->
  (dc <= dc')%nat /\ (dc' <= 4)%nat /\ length parts' = dc'.
Proof.
  induction s as [|c s IH]; intros cur parts dc parts' cur' dc' Hdc Hlen.
  - cbn [ipv4_split]. intro E. injection E as <- <- <-. lia.
  - cbn [ipv4_split]. destruct (c =? 46).
    + destruct (Nat.eqb_spec dc 4) as [E4|N4]; [discriminate|].
      destruct cur as [|x cur0]; [discriminate|].
      intro E. apply IH in E; [lia|lia|cbn [length]; lia].
    + destruct (negb (is_ipv4_char c)); [discriminate|].
      intro E. apply IH in E; [lia|lia|exact Hlen].
Qed.

Lemma ipv4_split_bound s parts cur dc :
  ipv4_split s [] [] 0 = Some (parts, cur, dc) -> (dc <= 4)%nat /\ length parts = dc.
Proof.
  intro E. apply ipv4_split_bound_gen in E; [tauto|lia|reflexivity].
Qed.

(* twin of ipv4_split recording the indices into part[6]: the read part[dot_count] and the
   write part[++dot_count] *)
Fixpoint ipv4_split_ix (s : str) (cur : str) (parts : list str) (dot_count : nat)
  : option (list str * str * nat) * list nat :=
  match s with
  | [] => (Some (parts, cur, dot_count), [])
  | c :: s' =>
      if c =? 46 then
        if (dot_count =? 4)%nat then (None, [])
        else match cur with
             | [] => (None, [dot_count])
             | _ => let '(r, ix) := ipv4_split_ix s' [] (rev cur :: parts) (S dot_count) in
                    (r, dot_count :: S dot_count :: ix)
             end
      else if negb (is_ipv4_char c) then (None, [])
      else ipv4_split_ix s' (c :: cur) parts dot_count
  end.

Lemma ipv4_split_ix_fst s : forall cur parts dc,
  fst (ipv4_split_ix s cur parts dc) = ipv4_split s cur parts dc.
Proof.
  induction s as [|c s IH]; intros cur parts dc; [reflexivity|].
  cbn [ipv4_split_ix ipv4_split]. destruct (c =? 46).
  - destruct (dc =? 4)%nat; [reflexivity|]. destruct cur as [|x cur0]; [reflexivity|].
    specialize (IH [] (rev (x :: cur0) :: parts) (S dc)).
    destruct (ipv4_split_ix s [] (rev (x :: cur0) :: parts) (S dc)) as [r ix]. exact IH.
  - destruct (negb (is_ipv4_char c)); [reflexivity|apply IH].
Qed.

Lemma ipv4_split_ix_bound s : forall cur parts dc, (dc <= 4)%nat ->
  Forall (fun i => (i <= 4)%nat) (snd (ipv4_split_ix s cur parts dc)).
Proof.
  induction s as [|c s IH]; intros cur parts dc Hdc; [constructor|].
  cbn [ipv4_split_ix]. destruct (c =? 46).
  - destruct (Nat.eqb_spec dc 4) as [E4|N4]; [constructor|].
    destruct cur as [|x cur0]; [constructor; [lia|constructor]|].
    specialize (IH [] (rev (x :: cur0) :: parts) (S dc) ltac:(lia)).
    destruct (ipv4_split_ix s [] (rev (x :: cur0) :: parts) (S dc)) as [r ix]. cbn [snd] in *.
    constructor; [lia|]. constructor; [lia|exact IH].
  - destruct (negb (is_ipv4_char c)); [constructor|apply IH; exact Hdc].
Qed.

(* the part list handed to the number loop: part_count = length <= dot_count + 1 <= 5 (so the
   write part[part_count] is inside part[6]), and number[ind] is used with ind < part_count <= 4 *)
Lemma parts_of_length rparts cur dc : length rparts = dc ->
  (length (parts_of rparts cur dc) <= dc + 1)%nat /\ (dc <= length (parts_of rparts cur dc))%nat.
Proof.
  intro H. subst dc. unfold parts_of. destruct cur as [|x cur0].
  - destruct (0 <? length rparts)%nat; rewrite rev_length; cbn [length];
      change (@length (list N) rparts) with (@length str rparts); lia.
  - rewrite rev_length. cbn [length]. change (@length (list N) rparts) with (@length str rparts). lia.
Qed.

Lemma parse_numbers_length parts : forall numbers,
  parse_numbers parts = Some numbers -> length numbers = length parts.
Proof.
  induction parts as [|p ps IH]; intros numbers.
  - cbn. intro E. injection E as <-. reflexivity.
  - cbn [parse_numbers]. destruct (ipv4_parse_number p); try discriminate.
    destruct (parse_numbers ps) as [ns|]; [|discriminate].
    intro E. injection E as <-. cbn [length]. rewrite (IH ns eq_refl). reflexivity.
Qed.

(* ipv4_parse seen through its stages (Ipv4Proofs.impl_parse_unfold): whenever the number
   loop runs to completion its output has at most 4 entries and part_count <= 5 *)
Lemma ipv4_numbers_bound s rparts cur dc numbers :
  ipv4_split s [] [] 0 = Some (rparts, cur, dc) ->
  (4 <? length (parts_of rparts cur dc))%nat = false ->
  parse_numbers (parts_of rparts cur dc) = Some numbers ->
  (dc <= 4)%nat /\ (length (parts_of rparts cur dc) <= dc + 1)%nat /\
  (1 <= length numbers <= 4)%nat /\ length numbers = length (parts_of rparts cur dc).
Proof.
  intros Es Hg Ep. destruct (ipv4_split_bound s rparts cur dc Es) as [Hdc Hl].
  destruct (parts_of_length rparts cur dc Hl) as [Hp1 Hp2].
  pose proof (parse_numbers_length _ _ Ep) as Hn.
  apply Nat.ltb_ge in Hg.
  assert (1 <= length (parts_of rparts cur dc))%nat.
  { unfold parts_of. destruct cur as [|x c0]; [destruct (Nat.ltb_spec 0 dc)|];
      rewrite ?rev_length; cbn [length]; change (@length (list N) rparts) with (@length str rparts) in *; lia. }
  lia.
Qed.

(* ====================================================================== *)
(* 2. IPv4 arithmetic never wraps                                         *)
(* ====================================================================== *)

Module P4 := Upa.Proofs.Ipv4Proofs.

Lemma fold_r_upper R s : forall num, (forall c, In c s -> hex_val c < R) ->
  P4.fold_r R s num + 1 <= (num + 1) * R ^ N.of_nat (length s).
Proof.
  induction s as [|c s IH]; intros num Hd.
  - cbn. lia.
  - rewrite P4.fold_r_cons. cbn [length]. rewrite Nat2N.inj_succ, N.pow_succ_r'.
    eapply N.le_trans; [apply IH; intros x Hx; apply Hd; right; exact Hx|].
    rewrite N.mul_assoc. apply N.mul_le_mono_r.
    specialize (Hd c (or_introl eq_refl)). clear - Hd. lia.
Qed.

Lemma radix_le_16_pow R k : P4.radix_ok R -> k <= 11 -> R ^ k <= 2 ^ 44.
Proof. exact (P4.pow_le_16_11 R k). Qed.

Lemma digits_val_bound R d : P4.radix_ok R -> forallb (Spec.Ip.radix_digit R) d = true ->
  (length d <= 11)%nat -> digits_val R d < 2 ^ 44.
Proof.
  intros HR Hv Hl. rewrite P4.digits_val_fold.
  pose proof (fold_r_upper R d 0) as Hu.
  assert (Hd : forall c, In c d -> hex_val c < R).
  { intros c Hc. rewrite forallb_forall in Hv. destruct (P4.radix_digit_val R c HR (Hv c Hc)) as [H _]. exact H. }
  specialize (Hu Hd). pose proof (radix_le_16_pow R (N.of_nat (length d)) HR ltac:(lia)) as Hp.
  clear - Hu Hp. lia.
Qed.

(* the decimal/octal loop: with at most 11 valid digits the 64-bit accumulator holds the exact value *)
Lemma acc_dec_nowrap R d : R = 8 \/ R = 10 ->
  forallb (Spec.Ip.radix_digit R) d = true -> (length d <= 11)%nat ->
  acc_dec R (48 - 1 + R) d 0 = Some (digits_val R d) /\ digits_val R d < 2 ^ 64.
Proof.
  intros HR Hv Hl.
  assert (Hok : P4.radix_ok R) by (destruct HR; [left|right; left]; assumption).
  pose proof (digits_val_bound R d Hok Hv Hl) as Hb.
  split; [|eapply N.lt_trans; [exact Hb|reflexivity]].
  rewrite (P4.acc_dec_spec R HR), Hv. f_equal.
  rewrite P4.digits_val_fold. apply P4.fold_u_exact; try assumption.
  rewrite N.add_0_l, N.mul_1_l.
  eapply N.le_trans; [apply (radix_le_16_pow R _ Hok); lia|].
  apply N.pow_le_mono_r; [discriminate|lia].
Qed.

Lemma acc_hex_nowrap d : forallb is_ascii_hex d = true -> (length d <= 11)%nat ->
  acc_hex d 0 = Some (digits_val 16 d) /\ digits_val 16 d < 2 ^ 64.
Proof.
  intros Hv Hl.
  assert (Hok : P4.radix_ok 16) by (right; right; reflexivity).
  pose proof (digits_val_bound 16 d Hok Hv Hl) as Hb.
  split; [|eapply N.lt_trans; [exact Hb|reflexivity]].
  assert (H256 : Forall (fun c => c < 256) d).
  { apply Forall_forall. intros c Hc. rewrite forallb_forall in Hv.
    destruct (P4.hex_val_lt16 c (Hv c Hc)) as (_ & H & _). exact H. }
  rewrite (P4.acc_hex_spec d H256).
  change (forallb (Spec.Ip.radix_digit 16) d) with (forallb is_ascii_hex d). rewrite Hv. f_equal.
  rewrite P4.digits_val_fold. apply P4.fold_u_exact; try assumption.
  rewrite N.add_0_l, N.mul_1_l.
  eapply N.le_trans; [apply (radix_le_16_pow 16 _ Hok); lia|].
  apply N.pow_le_mono_r; [discriminate|lia].
Qed.

(* ---- wrap-detecting twins: the flag becomes true as soon as a u64 / u32 changes a value ---- *)

Fixpoint acc_dec_w (radix : N) (chmax : N) (s : str) (num : N) (w : bool) : option N * bool :=
  match s with
  | [] => (Some num, w)
  | ch :: s' => if (chmax <? ch) || (ch <? 48) then (None, w)
                else let x := num * radix + (ch - 48) in
                     acc_dec_w radix chmax s' (u64 x) (w || negb (u64 x =? x))
  end.

Fixpoint acc_hex_w (s : str) (num : N) (w : bool) : option N * bool :=
  match s with
  | [] => (Some num, w)
  | ch :: s' => let uch := ch mod 256 in
                if negb (is_hex_char uch) then (None, w)
                else let x := num * 16 + hex_char_to_num uch in
                     acc_hex_w s' (u64 x) (w || negb (u64 x =? x))
  end.

Lemma acc_dec_w_fst R chmax s : forall num w, fst (acc_dec_w R chmax s num w) = acc_dec R chmax s num.
Proof.
  induction s as [|ch s IH]; intros num w; [reflexivity|].
  cbn [acc_dec_w acc_dec]. destruct ((chmax <? ch) || (ch <? 48)); [reflexivity|apply IH].
Qed.

Lemma acc_hex_w_fst s : forall num w, fst (acc_hex_w s num w) = acc_hex s num.
Proof.
  induction s as [|ch s IH]; intros num w; [reflexivity|].
  cbn [acc_hex_w acc_hex]. cbv zeta. destruct (negb (is_hex_char (ch mod 256))); [reflexivity|apply IH].
Qed.

Lemma u64_small x : x < 2 ^ 64 -> u64 x = x.
Proof. intro H. unfold u64. apply N.mod_small. exact H. Qed.

Lemma u32_small x : x < 2 ^ 32 -> u32 x = x.
Proof. intro H. unfold u32. apply N.mod_small. exact H. Qed.

(* for EVERY string (valid digits or not): no wrap while (num+1) * 16^(remaining) <= 2^64 *)
Lemma acc_dec_w_flag R chmax s : R <= 16 -> chmax < 48 + R -> forall num w,
  (num + 1) * 16 ^ N.of_nat (length s) <= 2 ^ 64 ->
  snd (acc_dec_w R chmax s num w) = w.
Proof.
  intros HR Hch. induction s as [|ch s IH]; intros num w Hb; [reflexivity|].
  cbn [acc_dec_w]. destruct ((chmax <? ch) || (ch <? 48)) eqn:Eg; [reflexivity|].
  cbv zeta. cbn [length] in Hb. rewrite Nat2N.inj_succ, N.pow_succ_r' in Hb.
  set (P := 16 ^ N.of_nat (length s)) in *.
  assert (HP : P <> 0) by (apply N.pow_nonzero; discriminate).
  assert (Hx : (num * R + (ch - 48) + 1) * P <= 2 ^ 64).
  { eapply N.le_trans; [|exact Hb]. rewrite N.mul_assoc. apply N.mul_le_mono_r.
    clear - HR Hch Eg. nia. }
  assert (Hsmall : num * R + (ch - 48) < 2 ^ 64).
  { set (x := num * R + (ch - 48)) in *. clearbody x. clear - Hx HP. nia. }
  rewrite (u64_small _ Hsmall), N.eqb_refl. cbn [negb]. rewrite orb_false_r.
  apply IH. exact Hx.
Qed.

Lemma hex_char_to_num_lt16 c : is_hex_char c = true -> hex_char_to_num c < 16.
Proof.
  rewrite P4.is_hex_char_spec. intro H. rewrite (P4.hex_char_to_num_spec c H).
  destruct (P4.hex_val_lt16 c H) as [H1 _]. exact H1.
Qed.

Lemma acc_hex_w_flag s : forall num w,
  (num + 1) * 16 ^ N.of_nat (length s) <= 2 ^ 64 ->
  snd (acc_hex_w s num w) = w.
Proof.
  induction s as [|ch s IH]; intros num w Hb; [reflexivity|].
  cbn [acc_hex_w]. cbv zeta. destruct (is_hex_char (ch mod 256)) eqn:Eh; cbn [negb]; [|reflexivity].
  pose proof (hex_char_to_num_lt16 _ Eh) as Hlt.
  cbn [length] in Hb. rewrite Nat2N.inj_succ, N.pow_succ_r' in Hb.
  set (P := 16 ^ N.of_nat (length s)) in *. set (v := hex_char_to_num (ch mod 256)) in *.
  assert (HP : P <> 0) by (apply N.pow_nonzero; discriminate).
  assert (Hx : (num * 16 + v + 1) * P <= 2 ^ 64).
  { eapply N.le_trans; [|exact Hb]. rewrite N.mul_assoc. apply N.mul_le_mono_r.
    clear - Hlt. lia. }
  assert (Hsmall : num * 16 + v < 2 ^ 64).
  { set (x := num * 16 + v) in *. clearbody x. clear - Hx HP. nia. }
  rewrite (u64_small _ Hsmall), N.eqb_refl. cbn [negb]. rewrite orb_false_r.
  apply IH. exact Hx.
Qed.

(* twin of ipv4_parse_number with the wrap flag *)
Definition ipv4_parse_number_w (s : str) : num_res * bool :=
  match s with
  | [] => (NumNonNumeric, false)
  | c0 :: rest0 =>
    let '(radix, s1, early) :=
      if c0 =? 48 then
        match rest0 with
        | [] => (10, s, true)
        | c1 :: rest1 =>
            if (c1 =? 88) || (c1 =? 120)
            then (16, drop_while (fun c => c =? 48) rest1, false)
            else (8, drop_while (fun c => c =? 48) rest0, false)
        end
      else (10, s, false) in
    if early then (NumOk 0, false) else
    match s1 with
    | [] => (NumOk 0, false)
    | _ =>
      if (11 <? length s1)%nat then (NumOutOfRange, false) else
      let '(r, w) := if radix <=? 10 then acc_dec_w radix (48 - 1 + radix) s1 0 false
                     else acc_hex_w s1 0 false in
      match r with
      | None => (NumNonNumeric, w)
      | Some num => if UINT32_MAX <? num then (NumOutOfRange, w) else (NumOk num, w)
      end
    end
  end.

Lemma pow16_11 k : (k <= 11)%nat -> (0 + 1) * 16 ^ N.of_nat k <= 2 ^ 64.
Proof.
  intro H. rewrite N.add_0_l, N.mul_1_l. change (2 ^ 64) with (16 ^ 16).
  apply N.pow_le_mono_r; [discriminate|lia].
Qed.

(* generic tail of ipv4_parse_number[_w] after the radix is known *)
Lemma number_tail_w R s1 : R = 8 \/ R = 10 \/ R = 16 -> (length s1 <= 11)%nat ->
  (let '(r, w) := if R <=? 10 then acc_dec_w R (48 - 1 + R) s1 0 false else acc_hex_w s1 0 false in
   match r with
   | None => (NumNonNumeric, w)
   | Some num => if UINT32_MAX <? num then (NumOutOfRange, w) else (NumOk num, w)
   end) =
  (match (if R <=? 10 then acc_dec R (48 - 1 + R) s1 0 else acc_hex s1 0) with
   | None => NumNonNumeric
   | Some num => if UINT32_MAX <? num then NumOutOfRange else NumOk num
   end, false).
Proof.
  intros HR Hl.
  assert (E : (if R <=? 10 then acc_dec_w R (48 - 1 + R) s1 0 false else acc_hex_w s1 0 false) =
              ((if R <=? 10 then acc_dec R (48 - 1 + R) s1 0 else acc_hex s1 0), false)).
  { destruct HR as [-> | [-> | ->]]; cbn [N.leb N.compare Pos.compare Pos.compare_cont].
    - rewrite (surjective_pairing (acc_dec_w 8 (48 - 1 + 8) s1 0 false)), acc_dec_w_fst.
      rewrite acc_dec_w_flag; [reflexivity|lia|reflexivity|apply pow16_11; exact Hl].
    - rewrite (surjective_pairing (acc_dec_w 10 (48 - 1 + 10) s1 0 false)), acc_dec_w_fst.
      rewrite acc_dec_w_flag; [reflexivity|lia|reflexivity|apply pow16_11; exact Hl].
    - rewrite (surjective_pairing (acc_hex_w s1 0 false)), acc_hex_w_fst.
      rewrite acc_hex_w_flag; [reflexivity|apply pow16_11; exact Hl]. }
  rewrite E.
  destruct (if R <=? 10 then acc_dec R (48 - 1 + R) s1 0 else acc_hex s1 0) as [num|]; [|reflexivity].
  destruct (UINT32_MAX <? num); reflexivity.
Qed.

Lemma ipv4_parse_number_w_eq s : ipv4_parse_number_w s = (ipv4_parse_number s, false).
Proof.
  destruct s as [|c0 rest0]; [reflexivity|].
  unfold ipv4_parse_number_w, ipv4_parse_number.
  assert (G : forall (R : N) (s1 : str) (early : bool), (R = 8 \/ R = 10 \/ R = 16) ->
    (if early then (NumOk 0, false) else
     match s1 with
     | [] => (NumOk 0, false)
     | _ => if (11 <? length s1)%nat then (NumOutOfRange, false) else
            let '(r, w) := if R <=? 10 then acc_dec_w R (48 - 1 + R) s1 0 false else acc_hex_w s1 0 false in
            match r with
            | None => (NumNonNumeric, w)
            | Some num => if UINT32_MAX <? num then (NumOutOfRange, w) else (NumOk num, w)
            end
     end) =
    ((if (early : bool) then NumOk 0 else
     match s1 with
     | [] => NumOk 0
     | _ => if (11 <? length s1)%nat then NumOutOfRange else
            let r := if R <=? 10 then acc_dec R (48 - 1 + R) s1 0 else acc_hex s1 0 in
            match r with
            | None => NumNonNumeric
            | Some num => if UINT32_MAX <? num then NumOutOfRange else NumOk num
            end
     end), false)).
  { intros R s1 early HR. destruct early; [reflexivity|]. destruct s1 as [|x s1']; [reflexivity|].
    destruct (Nat.ltb_spec 11 (length (x :: s1'))) as [Hlen|Hlen]; [reflexivity|].
    cbv zeta. apply number_tail_w; assumption. }
  destruct (c0 =? 48).
  - destruct rest0 as [|c1 rest1]; [reflexivity|].
    destruct ((c1 =? 88) || (c1 =? 120)).
    + exact (G 16 (drop_while (fun c => c =? 48) rest1) false (or_intror (or_intror eq_refl))).
    + exact (G 8 (drop_while (fun c => c =? 48) (c1 :: rest1)) false (or_introl eq_refl)).
  - exact (G 10 (c0 :: rest0) false (or_intror (or_introl eq_refl))).
Qed.

Fixpoint parse_numbers_w (parts : list str) : option (list N) * bool :=
  match parts with
  | [] => (Some [], false)
  | p :: ps => let '(r, w) := ipv4_parse_number_w p in
               match r with
               | NumOk n => let '(rs, ws) := parse_numbers_w ps in
                            match rs with
                            | Some ns => (Some (n :: ns), w || ws)
                            | None => (None, w || ws)
                            end
               | _ => (None, w)
               end
  end.

Lemma parse_numbers_w_eq parts : parse_numbers_w parts = (parse_numbers parts, false).
Proof.
  induction parts as [|p ps IH]; [reflexivity|].
  cbn [parse_numbers_w parse_numbers]. rewrite ipv4_parse_number_w_eq.
  destruct (ipv4_parse_number p); try reflexivity.
  rewrite IH. destruct (parse_numbers ps); reflexivity.
Qed.

(* twin of ipv4_accumulate: both u32 casts are watched *)
Fixpoint ipv4_accumulate_w (nums : list N) (counter : N) (ipv4 : N) (w : bool) : N * bool :=
  match nums with
  | [] => (ipv4, w)
  | n :: ns =>
      let x := N.shiftl n (8 * (3 - counter)) in
      let y := ipv4 + u32 x in
      ipv4_accumulate_w ns (counter + 1) (u32 y) (w || negb (u32 x =? x) || negb (u32 y =? y))
  end.

Lemma ipv4_accumulate_w_fst nums : forall counter ipv4 w,
  fst (ipv4_accumulate_w nums counter ipv4 w) = ipv4_accumulate nums counter ipv4.
Proof.
  induction nums as [|n ns IH]; intros counter ipv4 w; [reflexivity|].
  cbn [ipv4_accumulate_w ipv4_accumulate]. cbv zeta. apply IH.
Qed.

(* one watched step is the identity when the exact value fits *)
Lemma acc_step_id n k ipv4 w : N.shiftl n k < 2 ^ 32 -> ipv4 + N.shiftl n k < 2 ^ 32 ->
  (u32 (ipv4 + u32 (N.shiftl n k)) = ipv4 + N.shiftl n k) /\
  (w || negb (u32 (N.shiftl n k) =? N.shiftl n k)
     || negb (u32 (ipv4 + u32 (N.shiftl n k)) =? ipv4 + u32 (N.shiftl n k))) = w.
Proof.
  intros H1 H2. rewrite (u32_small _ H1), (u32_small _ H2), !N.eqb_refl.
  cbn [negb]. rewrite !orb_false_r. split; reflexivity.
Qed.

(* the C++ guards (front items <= 255, last item <= 0xFFFFFFFF >> 8*(part_count-1)) make every
   cast in the summation loop the identity *)
Lemma accumulate_nowrap front lastn : (length front <= 3)%nat ->
  existsb (fun n => 255 <? n) front = false ->
  lastn <= N.shiftr UINT32_MAX (8 * (N.of_nat (S (length front)) - 1)) ->
  ipv4_accumulate_w front 0 lastn false = (lastn + Spec.Ip.ipv4_sum front 0, false) /\
  lastn + Spec.Ip.ipv4_sum front 0 < 2 ^ 32.
Proof.
  intros Hlen Hex Hlast.
  destruct front as [|a [|b [|c [|d front]]]]; [| | | |cbn [length] in Hlen; lia].
  - cbn [ipv4_accumulate_w Spec.Ip.ipv4_sum]. rewrite N.add_0_r.
    change (N.shiftr UINT32_MAX (8 * (N.of_nat (S (length (@nil N))) - 1))) with 4294967295 in Hlast.
    split; [reflexivity|]. change (2 ^ 32) with 4294967296. lia.
  - change (N.shiftr UINT32_MAX (8 * (N.of_nat (S (length [a])) - 1))) with 16777215 in Hlast.
    cbn [existsb] in Hex. apply orb_false_elim in Hex. destruct Hex as [Ha _].
    cbn [ipv4_accumulate_w Spec.Ip.ipv4_sum]. cbv zeta.
    change (8 * (3 - 0)) with 24. change (256 ^ (3 - 0)) with 16777216.
    assert (H1 : N.shiftl a 24 < 2 ^ 32) by (rewrite P4.shl_24; change (2 ^ 32) with 4294967296; lia).
    assert (H2 : lastn + N.shiftl a 24 < 2 ^ 32) by (rewrite P4.shl_24; change (2 ^ 32) with 4294967296; lia).
    destruct (acc_step_id a 24 lastn false H1 H2) as [E1 E2]. rewrite E2, E1, P4.shl_24.
    split; [f_equal; lia|]. rewrite P4.shl_24 in H2. lia.
  - change (N.shiftr UINT32_MAX (8 * (N.of_nat (S (length [a; b])) - 1))) with 65535 in Hlast.
    cbn [existsb] in Hex. apply orb_false_elim in Hex. destruct Hex as [Ha Hex].
    apply orb_false_elim in Hex. destruct Hex as [Hb _].
    cbn [ipv4_accumulate_w Spec.Ip.ipv4_sum]. cbv zeta.
    change (8 * (3 - 0)) with 24. change (8 * (3 - (0 + 1))) with 16.
    change (256 ^ (3 - 0)) with 16777216. change (256 ^ (3 - (0 + 1))) with 65536.
    assert (H1 : N.shiftl a 24 < 2 ^ 32) by (rewrite P4.shl_24; change (2 ^ 32) with 4294967296; lia).
    assert (H2 : lastn + N.shiftl a 24 < 2 ^ 32) by (rewrite P4.shl_24; change (2 ^ 32) with 4294967296; lia).
    destruct (acc_step_id a 24 lastn false H1 H2) as [E1 E2]. rewrite E2, E1.
    assert (H3 : N.shiftl b 16 < 2 ^ 32) by (rewrite P4.shl_16; change (2 ^ 32) with 4294967296; lia).
    assert (H4 : lastn + N.shiftl a 24 + N.shiftl b 16 < 2 ^ 32)
      by (rewrite P4.shl_24, P4.shl_16; change (2 ^ 32) with 4294967296; lia).
    destruct (acc_step_id b 16 (lastn + N.shiftl a 24) false H3 H4) as [E3 E4]. rewrite E4, E3.
    rewrite P4.shl_24, P4.shl_16 in *.
    split; [f_equal; lia|]. lia.
  - change (N.shiftr UINT32_MAX (8 * (N.of_nat (S (length [a; b; c])) - 1))) with 255 in Hlast.
    cbn [existsb] in Hex. apply orb_false_elim in Hex. destruct Hex as [Ha Hex].
    apply orb_false_elim in Hex. destruct Hex as [Hb Hex].
    apply orb_false_elim in Hex. destruct Hex as [Hc _].
    cbn [ipv4_accumulate_w Spec.Ip.ipv4_sum]. cbv zeta.
    change (8 * (3 - 0)) with 24. change (8 * (3 - (0 + 1))) with 16. change (8 * (3 - (0 + 1 + 1))) with 8.
    change (256 ^ (3 - 0)) with 16777216. change (256 ^ (3 - (0 + 1))) with 65536.
    change (256 ^ (3 - (0 + 1 + 1))) with 256.
    assert (H1 : N.shiftl a 24 < 2 ^ 32) by (rewrite P4.shl_24; change (2 ^ 32) with 4294967296; lia).
    assert (H2 : lastn + N.shiftl a 24 < 2 ^ 32) by (rewrite P4.shl_24; change (2 ^ 32) with 4294967296; lia).
    destruct (acc_step_id a 24 lastn false H1 H2) as [E1 E2]. rewrite E2, E1.
    assert (H3 : N.shiftl b 16 < 2 ^ 32) by (rewrite P4.shl_16; change (2 ^ 32) with 4294967296; lia).
    assert (H4 : lastn + N.shiftl a 24 + N.shiftl b 16 < 2 ^ 32)
      by (rewrite P4.shl_24, P4.shl_16; change (2 ^ 32) with 4294967296; lia).
    destruct (acc_step_id b 16 (lastn + N.shiftl a 24) false H3 H4) as [E3 E4]. rewrite E4, E3.
    assert (H5 : N.shiftl c 8 < 2 ^ 32) by (rewrite P4.shl_8; change (2 ^ 32) with 4294967296; lia).
    assert (H6 : lastn + N.shiftl a 24 + N.shiftl b 16 + N.shiftl c 8 < 2 ^ 32)
      by (rewrite P4.shl_24, P4.shl_16, P4.shl_8; change (2 ^ 32) with 4294967296; lia).
    destruct (acc_step_id c 8 (lastn + N.shiftl a 24 + N.shiftl b 16) false H5 H6) as [E5 E6]. rewrite E6, E5.
    rewrite P4.shl_24, P4.shl_16, P4.shl_8 in *.
    split; [f_equal; lia|]. lia.
Qed.

(* twin of ipv4_parse: all the wrap flags of the number parser and of the summation *)
Definition ipv4_parse_w (s : str) : ip4_res * bool :=
  match s with
  | [] => (Ip4Err, false)
  | _ =>
    match ipv4_split s [] [] 0 with
    | None => (Ip4Err, false)
    | Some (rparts, cur, dot_count) =>
      let parts :=
        match cur with
        | [] => if (0 <? dot_count)%nat then rev rparts else rev ([] :: rparts)
        | _ => rev (rev cur :: rparts)
        end in
      if (4 <? length parts)%nat then (Ip4Err, false) else
      let '(pn, w1) := parse_numbers_w parts in
      match pn with
      | None => (Ip4Err, w1)
      | Some numbers =>
        let part_count := length numbers in
        let front := removelast numbers in
        if existsb (fun n => 255 <? n) front then (Ip4Err, w1) else
        match last_opt numbers with
        | None => (Ip4Err, w1)
        | Some lastn =>
          if N.shiftr UINT32_MAX (8 * (N.of_nat part_count - 1)) <? lastn then (Ip4Err, w1)
          else let '(a, w2) := ipv4_accumulate_w front 0 lastn w1 in (Ip4Ok a, w2)
        end
      end
    end
  end.

Lemma removelast_length {A} (l : list A) : l <> [] -> S (length (removelast l)) = length l.
Proof.
  induction l as [|x l IH]; [congruence|]. intros _. destruct l as [|y l]; [reflexivity|].
  change (removelast (x :: y :: l)) with (x :: removelast (y :: l)). cbn [length].
  rewrite IH; [reflexivity|discriminate].
Qed.

Lemma last_opt_some_nonnil {A} (l : list A) x : last_opt l = Some x -> l <> [].
Proof. destruct l; [discriminate|discriminate]. Qed.

Lemma ipv4_parse_w_eq s : ipv4_parse_w s = (ipv4_parse s, false).
Proof.
  destruct s as [|c0 s0]; [reflexivity|].
  unfold ipv4_parse_w, ipv4_parse. cbv beta iota. generalize (c0 :: s0). intro s.
  destruct (ipv4_split s [] [] 0) as [[[rparts cur] dc]|]; [|reflexivity].
  cbv zeta.
  set (parts := match cur with
                | [] => if (0 <? dc)%nat then rev rparts else rev ([] :: rparts)
                | _ :: _ => rev (rev cur :: rparts)
                end).
  destruct (Nat.ltb_spec 4 (length parts)) as [Hlen|Hlen]; [reflexivity|].
  rewrite parse_numbers_w_eq.
  destruct (parse_numbers parts) as [numbers|] eqn:Ep; [|reflexivity].
  destruct (existsb (fun n => 255 <? n) (removelast numbers)) eqn:Ex; [reflexivity|].
  destruct (last_opt numbers) as [lastn|] eqn:El; [|reflexivity].
  destruct (N.ltb_spec (N.shiftr UINT32_MAX (8 * (N.of_nat (length numbers) - 1))) lastn) as [Hl|Hl];
    [reflexivity|].
  pose proof (parse_numbers_length _ _ Ep) as Hn.
  pose proof (removelast_length numbers (last_opt_some_nonnil _ _ El)) as Hr.
  destruct (accumulate_nowrap (removelast numbers) lastn) as [Ea _].
  - lia.
  - exact Ex.
  - rewrite Hr. exact Hl.
  - rewrite Ea. rewrite <- (ipv4_accumulate_w_fst (removelast numbers) 0 lastn false), Ea. reflexivity.
Qed.

(* corollary in the vocabulary of C11: a successful parse is the exact sum and fits 32 bits *)
Lemma ipv4_parse_range s a : ipv4_parse s = Ip4Ok a -> a < 2 ^ 32.
Proof.
  rewrite C11_parse. destruct (Spec.Ip.ipv4_parse s) as [b|] eqn:E; [|discriminate].
  intro H. injection H as <-. exact (C11_parse_range s b E).
Qed.

(* ====================================================================== *)
(* 3. IPv6: address[8]                                                    *)
(* ====================================================================== *)

(* twin of ipv6_main recording every index handed to set_nth (address[piece_index] = value) *)
Fixpoint ipv6_main_ix (fuel : nat) (s : str) (address : list N) (piece_index compress : nat)
  : ip6_main_res * list nat :=
  match fuel with
  | O => (M6Err, [])
  | S fuel' =>
    match s with
    | [] => (M6Done address piece_index compress, [])
    | c :: s' =>
      if (piece_index =? 8)%nat then (M6Err, []) else
      if c =? 58 then
        if negb (compress =? 0)%nat then (M6Err, [])
        else ipv6_main_ix fuel' s' address (S piece_index) (S piece_index)
      else
        let '(value, n, s1) := get_hex_number 4 s 0 0 in
        match s1 with
        | [] => let '(r, ix) := ipv6_main_ix fuel' [] (set_nth address piece_index value) (S piece_index) compress in
                (r, piece_index :: ix)
        | ch :: s2 =>
            if ch =? 46 then
              if (n =? 0)%nat then (M6Err, []) else (M6Ipv4 address piece_index compress s, [])
            else if ch =? 58 then
              match s2 with
              | [] => (M6Err, [])
              | _ => let '(r, ix) := ipv6_main_ix fuel' s2 (set_nth address piece_index value) (S piece_index) compress in
                     (r, piece_index :: ix)
              end
            else (M6Err, [])
        end
    end
  end.

Lemma ipv6_main_ix_fst fuel : forall s address pi compress,
  fst (ipv6_main_ix fuel s address pi compress) = ipv6_main fuel s address pi compress.
Proof.
  induction fuel as [|f IH]; intros s address pi compress; [reflexivity|].
  cbn [ipv6_main_ix ipv6_main]. destruct s as [|c s']; [reflexivity|].
  destruct (pi =? 8)%nat; [reflexivity|].
  destruct (c =? 58).
  - destruct (negb (compress =? 0)%nat); [reflexivity|apply IH].
  - destruct (get_hex_number 4 (c :: s') 0 0) as [[value n] s1].
    destruct s1 as [|ch s2].
    + specialize (IH [] (set_nth address pi value) (S pi) compress).
      destruct (ipv6_main_ix f [] (set_nth address pi value) (S pi) compress) as [r ix]. exact IH.
    + destruct (ch =? 46); [destruct (n =? 0)%nat; reflexivity|].
      destruct (ch =? 58); [|reflexivity].
      destruct s2 as [|x s3]; [reflexivity|].
      specialize (IH (x :: s3) (set_nth address pi value) (S pi) compress).
      destruct (ipv6_main_ix f (x :: s3) (set_nth address pi value) (S pi) compress) as [r ix]. exact IH.
Qed.

(* invariant of the main loop: piece_index <= 8 and compress <= piece_index; all writes < 8 *)
Definition main_res_ok (r : ip6_main_res) : Prop :=
  match r with
  | M6Err => True
  | M6Done _ pi compress => (pi <= 8)%nat /\ (compress <= pi)%nat
  | M6Ipv4 _ pi compress _ => (pi < 8)%nat /\ (compress <= pi)%nat
  end.

Lemma ipv6_main_ix_bound fuel : forall s address pi compress,
  (pi <= 8)%nat -> (compress <= pi)%nat ->
  Forall (fun i => (i < 8)%nat) (snd (ipv6_main_ix fuel s address pi compress)) /\
  main_res_ok (fst (ipv6_main_ix fuel s address pi compress)).
Proof.
  induction fuel as [|f IH]; intros s address pi compress Hpi Hc; [split; [constructor|exact I]|].
  cbn [ipv6_main_ix]. destruct s as [|c s']; [split; [constructor|split; assumption]|].
  destruct (Nat.eqb_spec pi 8) as [E8|N8]; [split; [constructor|exact I]|].
  destruct (c =? 58).
  - destruct (negb (compress =? 0)%nat); [split; [constructor|exact I]|].
    apply IH; lia.
  - destruct (get_hex_number 4 (c :: s') 0 0) as [[value n] s1].
    destruct s1 as [|ch s2].
    + destruct (IH [] (set_nth address pi value) (S pi) compress ltac:(lia) ltac:(lia)) as [H1 H2].
      destruct (ipv6_main_ix f [] (set_nth address pi value) (S pi) compress) as [r ix].
      cbn [fst snd] in *. split; [constructor; [lia|exact H1]|exact H2].
    + destruct (ch =? 46).
      { destruct (n =? 0)%nat; cbn [fst snd]; split; try constructor; try exact I; lia. }
      destruct (ch =? 58); [|split; [constructor|exact I]].
      destruct s2 as [|x s3]; [split; [constructor|exact I]|].
      destruct (IH (x :: s3) (set_nth address pi value) (S pi) compress ltac:(lia) ltac:(lia)) as [H1 H2].
      destruct (ipv6_main_ix f (x :: s3) (set_nth address pi value) (S pi) compress) as [r ix].
      cbn [fst snd] in *. split; [constructor; [lia|exact H1]|exact H2].
Qed.

(* twin of ipv6_ipv4_tail: address[piece_index] is read and written *)
Fixpoint ipv6_ipv4_tail_ix (fuel : nat) (s : str) (address : list N) (piece_index numbers_seen : nat)
  : option (list N * nat * nat) * list nat :=
  match fuel with
  | O => (None, [])
  | S fuel' =>
    match s with
    | [] => (Some (address, piece_index, numbers_seen), [])
    | c :: s' =>
      let s1 := if (0 <? numbers_seen)%nat
                then (if (c =? 46) && (numbers_seen <? 4)%nat then Some s' else None)
                else Some s in
      match s1 with
      | None => (None, [])
      | Some [] => (None, [])
      | Some (d :: s2) =>
          if negb (is_digit d) then (None, []) else
          match ipv4_piece_digits s2 (d - 48) with
          | None => (None, [])
          | Some (piece, s3) =>
              let address := set_nth address piece_index (u16 (get_nth address piece_index * 256 + piece)) in
              let ix0 := [piece_index; piece_index] in
              let numbers_seen := S numbers_seen in
              let piece_index := if Nat.even numbers_seen then S piece_index else piece_index in
              let '(r, ix) := ipv6_ipv4_tail_ix fuel' s3 address piece_index numbers_seen in
              (r, ix0 ++ ix)
          end
      end
    end
  end.

Lemma ipv6_ipv4_tail_ix_fst fuel : forall s address pi ns,
  fst (ipv6_ipv4_tail_ix fuel s address pi ns) = ipv6_ipv4_tail fuel s address pi ns.
Proof.
  induction fuel as [|f IH]; intros s address pi ns; [reflexivity|].
  cbn [ipv6_ipv4_tail_ix ipv6_ipv4_tail]. destruct s as [|c s']; [reflexivity|].
  cbv zeta.
  match goal with |- context [if (0 <? ns)%nat then ?a else ?b] =>
    destruct (if (0 <? ns)%nat then a else b) as [[|d s2]|] end; try reflexivity.
  destruct (negb (is_digit d)); [reflexivity|].
  destruct (ipv4_piece_digits s2 (d - 48)) as [[piece s3]|]; [|reflexivity].
  match goal with |- fst (let '(r, ix) := ?t in _) = ipv6_ipv4_tail f ?a ?b ?c ?d =>
    specialize (IH a b c d); destruct t as [r ix] end.
  exact IH.
Qed.

(* position invariant of the IPv4 tail: piece_index <= 6 + numbers_seen / 2 *)
Lemma ipv6_ipv4_tail_ix_bound fuel : forall s address pi ns,
  (2 * pi <= 12 + ns)%nat -> (Nat.even ns = true \/ 2 * pi <= 11 + ns)%nat ->
  Forall (fun i => (i < 8)%nat) (snd (ipv6_ipv4_tail_ix fuel s address pi ns)) /\
  (forall a pi' ns', fst (ipv6_ipv4_tail_ix fuel s address pi ns) = Some (a, pi', ns') ->
     (ns <= ns')%nat /\ (2 * pi' <= 12 + ns')%nat /\ (pi <= pi')%nat).
Proof.
  induction fuel as [|f IH]; intros s address pi ns Hinv Hpar; [split; [constructor|discriminate]|].
  cbn [ipv6_ipv4_tail_ix]. destruct s as [|c s'].
  { cbn [fst snd]. split; [constructor|]. intros a pi' ns' E. injection E as <- <- <-. lia. }
  cbv zeta.
  match goal with |- context [if (0 <? ns)%nat then ?a else ?b] =>
    assert (Hns : forall t, (if (0 <? ns)%nat then a else b) = Some t -> (ns <= 3)%nat);
    [|destruct (if (0 <? ns)%nat then a else b) as [[|d s2]|]] end;
    try (split; [constructor|discriminate]).
  { intros t. destruct (Nat.ltb_spec 0 ns) as [H0|H0]; [|intros; lia].
    destruct (Nat.ltb_spec ns 4) as [H4|H4]; [intros; lia|]. rewrite andb_false_r. discriminate. }
  specialize (Hns _ eq_refl).
  destruct (negb (is_digit d)); [split; [constructor|discriminate]|].
  destruct (ipv4_piece_digits s2 (d - 48)) as [[piece s3]|]; [|split; [constructor|discriminate]].
  assert (Hpi7 : (pi < 8)%nat).
  { destruct ns as [|[|[|[|ns]]]]; cbn in Hpar; try lia; destruct Hpar as [Hp|Hp]; try discriminate; lia. }
  set (a1 := set_nth address pi (u16 (get_nth address pi * 256 + piece))).
  set (pi1 := if Nat.even (S ns) then S pi else pi).
  assert (Hinv1 : (2 * pi1 <= 12 + S ns)%nat /\ (Nat.even (S ns) = true \/ 2 * pi1 <= 11 + S ns)%nat /\ (pi <= pi1)%nat).
  { subst pi1. destruct ns as [|[|[|[|ns]]]]; cbn in Hpar |- *; try lia;
      (destruct Hpar as [Hp|Hp]; [try discriminate|]); repeat split; try lia; try (left; reflexivity); right; lia. }
  destruct Hinv1 as (Hi1 & Hi2 & Hi3).
  destruct (IH s3 a1 pi1 (S ns) Hi1 Hi2) as [H1 H2].
  destruct (ipv6_ipv4_tail_ix f s3 a1 pi1 (S ns)) as [r ix]. cbn [fst snd] in *.
  split.
  - constructor; [exact Hpi7|]. constructor; [exact Hpi7|exact H1].
  - intros a pi' ns' E. specialize (H2 a pi' ns' E). lia.
Qed.

(* twin of ipv6_shift: a[ind+diff] = a[ind]; a[ind] = 0 — one write, one read, one write *)
Fixpoint ipv6_shift_ix (count : nat) (address : list N) (ind diff : nat) : list N * list nat :=
  match count with
  | O => (address, [])
  | S count' =>
      let address := set_nth (set_nth address (ind + diff) (get_nth address ind)) ind 0 in
      let '(r, ix) := ipv6_shift_ix count' address (ind - 1) diff in
      (r, (ind + diff)%nat :: ind :: ind :: ix)
  end.

Lemma ipv6_shift_ix_fst count : forall address ind diff,
  fst (ipv6_shift_ix count address ind diff) = ipv6_shift count address ind diff.
Proof.
  induction count as [|k IH]; intros address ind diff; [reflexivity|].
  cbn [ipv6_shift_ix ipv6_shift]. cbv zeta.
  match goal with |- fst (let '(r, ix) := ?t in _) = ipv6_shift k ?a ?b ?c =>
    specialize (IH a b c); destruct t as [r ix] end.
  exact IH.
Qed.

Lemma ipv6_shift_ix_bound count : forall address ind diff, (ind + diff < 8)%nat ->
  Forall (fun i => (i < 8)%nat) (snd (ipv6_shift_ix count address ind diff)).
Proof.
  induction count as [|k IH]; intros address ind diff H; [constructor|].
  cbn [ipv6_shift_ix]. cbv zeta.
  match goal with |- Forall _ (snd (let '(r, ix) := ?t in _)) =>
    pose proof (IH (set_nth (set_nth address (ind + diff) (get_nth address ind)) ind 0) (ind - 1)%nat diff ltac:(lia)) as Hrec;
    destruct t as [r ix] end.
  cbn [snd] in *. repeat (constructor; [lia|]). exact Hrec.
Qed.

(* the C++ loop index is a signed int that goes down to compress-1 >= 0: the truncated
   subtraction [ind - 1] of the model is exact in every iteration that runs (count <= ind):
   the index trace is ind, ind-1, ..., ind-count+1 computed in Z *)
Fixpoint shift_trace_z (count : nat) (ind diff : Z) : list Z :=
  match count with
  | O => []
  | S count' => (ind + diff)%Z :: ind :: ind :: shift_trace_z count' (ind - 1)%Z diff
  end.

Lemma ipv6_shift_ix_exact count : forall address ind diff, (count <= ind)%nat ->
  map Z.of_nat (snd (ipv6_shift_ix count address ind diff)) =
  shift_trace_z count (Z.of_nat ind) (Z.of_nat diff).
Proof.
  induction count as [|k IH]; intros address ind diff H; [reflexivity|].
  cbn [ipv6_shift_ix shift_trace_z]. cbv zeta.
  match goal with |- map _ (snd (let '(r, ix) := ?t in _)) = _ =>
    pose proof (IH (set_nth (set_nth address (ind + diff) (get_nth address ind)) ind 0) (ind - 1)%nat diff ltac:(lia)) as Hrec;
    destruct t as [r ix] end.
  cbn [snd map] in *. rewrite Hrec. rewrite Nat2Z.inj_add.
  replace (Z.of_nat (ind - 1)) with (Z.of_nat ind - 1)%Z by lia. reflexivity.
Qed.

Lemma shift_trace_z_bound count : forall ind diff, (Z.of_nat count <= ind)%Z -> (0 <= diff)%Z ->
  (ind + diff < 8)%Z -> Forall (fun z => (0 <= z < 8)%Z) (shift_trace_z count ind diff).
Proof.
  induction count as [|k IH]; intros ind diff H Hd H8; [constructor|].
  cbn [shift_trace_z]. repeat (constructor; [lia|]). apply IH; lia.
Qed.

Definition ipv6_finale_ix (address : list N) (piece_index compress : nat) : option (list N) * list nat :=
  if negb (compress =? 0)%nat then
    let diff := (8 - piece_index)%nat in
    if (diff =? 0)%nat then (Some address, [])
    else let '(r, ix) := ipv6_shift_ix (piece_index - compress) address (piece_index - 1) diff in
         (Some r, ix)
  else if negb (piece_index =? 8)%nat then (None, [])
  else (Some address, []).

Lemma ipv6_finale_ix_fst address pi compress :
  fst (ipv6_finale_ix address pi compress) = ipv6_finale address pi compress.
Proof.
  unfold ipv6_finale_ix, ipv6_finale. destruct (negb (compress =? 0)%nat).
  - cbv zeta. destruct (8 - pi =? 0)%nat; [reflexivity|].
    pose proof (ipv6_shift_ix_fst (pi - compress) address (pi - 1) (8 - pi)) as H.
    destruct (ipv6_shift_ix (pi - compress) address (pi - 1) (8 - pi)) as [r ix]. cbn [fst] in *. rewrite H. reflexivity.
  - destruct (negb (pi =? 8)%nat); reflexivity.
Qed.

Lemma ipv6_finale_ix_bound address pi compress : (pi <= 8)%nat ->
  Forall (fun i => (i < 8)%nat) (snd (ipv6_finale_ix address pi compress)) /\
  Forall (fun z => (0 <= z < 8)%Z) (map Z.of_nat (snd (ipv6_finale_ix address pi compress))).
Proof.
  intro Hpi. unfold ipv6_finale_ix.
  destruct (Nat.eqb_spec compress 0) as [E0|N0]; cbn [negb];
    [destruct (negb (pi =? 8)%nat); split; constructor|].
  cbv zeta. destruct (Nat.eqb_spec (8 - pi) 0) as [Ed|Nd]; [split; constructor|].
  destruct pi as [|p].
  - cbn [Nat.sub ipv6_shift_ix snd map]. split; constructor.
  - pose proof (ipv6_shift_ix_bound (S p - compress) address (S p - 1) (8 - S p) ltac:(lia)) as Hb.
    pose proof (ipv6_shift_ix_exact (S p - compress) address (S p - 1) (8 - S p) ltac:(lia)) as He.
    destruct (ipv6_shift_ix (S p - compress) address (S p - 1) (8 - S p)) as [r ix]. cbn [snd] in *.
    split; [exact Hb|]. rewrite He. apply shift_trace_z_bound; lia.
Qed.

(* twin of ipv6_parse *)
Definition ipv6_parse_ix (s : str) : option (list N) * list nat :=
  let address := [0;0;0;0;0;0;0;0] in
  match s with
  | [] => (None, [])
  | [_] => (None, [])
  | c0 :: c1 :: rest =>
    let start :=
      if c0 =? 58 then (if c1 =? 58 then Some (rest, 1%nat, 1%nat) else None)
      else Some (s, 0%nat, 0%nat) in
    match start with
    | None => (None, [])
    | Some (s0, piece_index, compress) =>
      let '(m, ix1) := ipv6_main_ix (S (length s0)) s0 address piece_index compress in
      match m with
      | M6Err => (None, ix1)
      | M6Done address piece_index compress =>
          let '(r, ix3) := ipv6_finale_ix address piece_index compress in (r, ix1 ++ ix3)
      | M6Ipv4 address piece_index compress rest =>
          if (6 <? piece_index)%nat then (None, ix1) else
          let '(t, ix2) := ipv6_ipv4_tail_ix (S (length rest)) rest address piece_index 0 in
          match t with
          | None => (None, ix1 ++ ix2)
          | Some (address, piece_index, numbers_seen) =>
              if negb (numbers_seen =? 4)%nat then (None, ix1 ++ ix2)
              else let '(r, ix3) := ipv6_finale_ix address piece_index compress in (r, ix1 ++ ix2 ++ ix3)
          end
      end
    end
  end.

Lemma ipv6_parse_ix_fst s : fst (ipv6_parse_ix s) = ipv6_parse s.
Proof.
  unfold ipv6_parse_ix, ipv6_parse. cbv zeta.
  destruct s as [|c0 [|c1 rest]]; [reflexivity|reflexivity|].
  match goal with |- context [if c0 =? 58 then ?a else ?b] =>
    destruct (if c0 =? 58 then a else b) as [[[s0 pi] compress]|] end; [|reflexivity].
  pose proof (ipv6_main_ix_fst (S (length s0)) s0 [0;0;0;0;0;0;0;0] pi compress) as Hm.
  destruct (ipv6_main_ix (S (length s0)) s0 [0;0;0;0;0;0;0;0] pi compress) as [m ix1].
  cbn [fst] in Hm. rewrite <- Hm. destruct m as [|a pi' c'|a pi' c' rest'].
  - reflexivity.
  - pose proof (ipv6_finale_ix_fst a pi' c') as Hf.
    destruct (ipv6_finale_ix a pi' c') as [r ix3]. exact Hf.
  - destruct (6 <? pi')%nat; [reflexivity|].
    pose proof (ipv6_ipv4_tail_ix_fst (S (length rest')) rest' a pi' 0) as Ht.
    destruct (ipv6_ipv4_tail_ix (S (length rest')) rest' a pi' 0) as [t ix2].
    cbn [fst] in Ht. rewrite <- Ht. destruct t as [[[a2 pi2] ns2]|]; [|reflexivity].
    destruct (negb (ns2 =? 4)%nat); [reflexivity|].
    pose proof (ipv6_finale_ix_fst a2 pi2 c') as Hf.
    destruct (ipv6_finale_ix a2 pi2 c') as [r ix3]. exact Hf.
Qed.

Lemma ipv6_index_bound s : Forall (fun i => (i < 8)%nat) (snd (ipv6_parse_ix s)).
Proof.
  unfold ipv6_parse_ix. cbv zeta.
  destruct s as [|c0 [|c1 rest]]; [constructor|constructor|].
  match goal with |- context [if c0 =? 58 then ?a else ?b] =>
    assert (Hst : forall s0 pi compress, (if c0 =? 58 then a else b) = Some (s0, pi, compress) ->
              (pi <= 8)%nat /\ (compress <= pi)%nat);
    [|destruct (if c0 =? 58 then a else b) as [[[s0 pi] compress]|]; [|constructor]] end.
  { intros s0 pi compress. destruct (c0 =? 58); [destruct (c1 =? 58)|]; intro E; try discriminate;
      injection E as <- <- <-; lia. }
  destruct (Hst s0 pi compress eq_refl) as [Hpi Hc].
  destruct (ipv6_main_ix_bound (S (length s0)) s0 [0;0;0;0;0;0;0;0] pi compress Hpi Hc) as [H1 Hok].
  destruct (ipv6_main_ix (S (length s0)) s0 [0;0;0;0;0;0;0;0] pi compress) as [m ix1].
  cbn [fst snd] in H1, Hok. destruct m as [|a pi' c'|a pi' c' rest'].
  - exact H1.
  - destruct Hok as [Hp8 _]. destruct (ipv6_finale_ix_bound a pi' c' Hp8) as [Hf _].
    destruct (ipv6_finale_ix a pi' c') as [r ix3]. cbn [snd] in *.
    apply Forall_app_intro; assumption.
  - destruct (Nat.ltb_spec 6 pi') as [H6|H6]; [exact H1|].
    destruct (ipv6_ipv4_tail_ix_bound (S (length rest')) rest' a pi' 0 ltac:(lia) ltac:(left; reflexivity))
      as [H2 Hout].
    destruct (ipv6_ipv4_tail_ix (S (length rest')) rest' a pi' 0) as [t ix2]. cbn [fst snd] in *.
    destruct t as [[[a2 pi2] ns2]|]; [|apply Forall_app_intro; assumption].
    destruct (Nat.eqb_spec ns2 4) as [E4|N4]; cbn [negb]; [|apply Forall_app_intro; assumption].
    destruct (Hout a2 pi2 ns2 eq_refl) as (_ & Hp2 & _).
    destruct (ipv6_finale_ix_bound a2 pi2 c' ltac:(lia)) as [Hf _].
    destruct (ipv6_finale_ix a2 pi2 c') as [r ix3]. cbn [snd] in *.
    repeat apply Forall_app_intro; assumption.
Qed.

(* parsed pieces are 16-bit: restated for the model through C12 *)
Lemma ipv6_pieces s a : ipv6_parse s = Some a -> length a = 8%nat /\ Forall (fun p => p < 65536) a.
Proof. rewrite C12_parse. apply C12_parse_pieces. Qed.

(* a successful ipv4_parse returns the exact (unbounded) weighted sum of the parsed numbers *)
Lemma ipv4_parse_exact_sum s a : ipv4_parse s = Ip4Ok a ->
  exists rparts cur dc numbers lastn,
    ipv4_split s [] [] 0 = Some (rparts, cur, dc) /\
    parse_numbers (parts_of rparts cur dc) = Some numbers /\ (length numbers <= 4)%nat /\
    last_opt numbers = Some lastn /\
    a = lastn + Spec.Ip.ipv4_sum (removelast numbers) 0 /\ a < 2 ^ 32.
Proof.
  rewrite impl_parse_unfold. destruct s as [|c0 s0]; [discriminate|]. generalize (c0 :: s0). intro s.
  destruct (ipv4_split s [] [] 0) as [[[rparts cur] dc]|]; [|discriminate].
  unfold impl_tail. destruct (Nat.ltb_spec 4 (length (parts_of rparts cur dc))) as [Hlen|Hlen]; [discriminate|].
  destruct (parse_numbers (parts_of rparts cur dc)) as [numbers|] eqn:Ep; [|discriminate].
  unfold impl_num_tail.
  destruct (existsb (fun n => 255 <? n) (removelast numbers)) eqn:Ex; [discriminate|].
  destruct (last_opt numbers) as [lastn|] eqn:El; [|discriminate].
  destruct (N.ltb_spec (N.shiftr UINT32_MAX (8 * (N.of_nat (length numbers) - 1))) lastn) as [Hl|Hl];
    [discriminate|].
  intro E. injection E as <-.
  pose proof (parse_numbers_length _ _ Ep) as Hn.
  pose proof (removelast_length numbers (last_opt_some_nonnil _ _ El)) as Hr.
  destruct (accumulate_nowrap (removelast numbers) lastn) as [Ea Hlt].
  - lia.
  - exact Ex.
  - rewrite Hr. exact Hl.
  - exists rparts, cur, dc, numbers, lastn. repeat split; try assumption; try reflexivity; try lia.
    + rewrite <- (ipv4_accumulate_w_fst (removelast numbers) 0 lastn false), Ea. reflexivity.
    + rewrite <- (ipv4_accumulate_w_fst (removelast numbers) 0 lastn false), Ea. exact Hlt.
Qed.
