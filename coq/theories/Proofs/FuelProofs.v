(* Termination of the basic URL parser as transcribed in Spec/Url.v: the fuel [parse_fuel]
   is always enough, so [POutOfFuel] is unreachable.

   Contents
   - [run_fuel_mono]         : more fuel never changes a result other than [POutOfFuel]
   - [eval]                  : fuel-free big-step relation of the state machine
   - [run_eval] / [eval_run] : [run] with enough fuel and [eval] coincide
   - [eval_det], [eval_not_out_of_fuel]
   - [potential]             : a Z-valued measure that strictly decreases along every
                               step that continues; bounded by 4 * |input| + 12 initially
   - [run_total]             : generic totality of [run] from any machine state
   - [basic_parse_total], [basic_parse_override_total_any], [basic_parse_override_total]
   - [basic_parse_eval], [basic_parse_override_eval] *)
From Upa Require Import Base.Prelude Spec.Url.
Local Open Scope Z_scope.

Section WithIdna.
Variable idna : list N -> option (list N).

Notation step := (Spec.Url.step idna).
Notation run := (Spec.Url.run idna).

(* ------------------------------------------------------------------------------------ *)
(* fuel monotonicity                                                                    *)
(* ------------------------------------------------------------------------------------ *)

Lemma run_fuel_mono : forall f input base ov m r,
  run f input base ov m = r -> r <> POutOfFuel ->
  forall f', (f <= f')%nat -> run f' input base ov m = r.
Proof.
  induction f as [|f IH]; intros input base ov m r Hrun Hr f' Hle.
  - cbn in Hrun. congruence.
  - destruct f' as [|f']; [lia|].
    cbn [Spec.Url.run] in Hrun |- *.
    destruct (step input base ov m) as [m'| |]; try exact Hrun.
    destruct (Z.of_nat (length input) <=? m_pointer m'); [exact Hrun|].
    apply IH; [exact Hrun | exact Hr | lia].
Qed.

(* ------------------------------------------------------------------------------------ *)
(* big-step relation                                                                    *)
(* ------------------------------------------------------------------------------------ *)

Inductive eval (input : str) (base : option url) (override : option pstate)
  : mstate -> presult -> Prop :=
| eval_fail : forall m,
    step input base override m = Fail ->
    eval input base override m (PFail (m_url m))
| eval_ret : forall m u,
    step input base override m = Ret u ->
    eval input base override m (POk u)
| eval_done : forall m m',
    step input base override m = Cont m' ->
    Z.of_nat (length input) <= m_pointer m' ->
    eval input base override m (POk (m_url m'))
| eval_cont : forall m m' r,
    step input base override m = Cont m' ->
    m_pointer m' < Z.of_nat (length input) ->
    eval input base override (inc_pointer m') r ->
    eval input base override m r.

Lemma run_eval : forall f input base ov m r,
  run f input base ov m = r -> r <> POutOfFuel -> eval input base ov m r.
Proof.
  induction f as [|f IH]; intros input base ov m r Hrun Hr.
  - cbn in Hrun. congruence.
  - cbn [Spec.Url.run] in Hrun.
    destruct (step input base ov m) as [m'|u|] eqn:Hstep.
    + destruct (Z.of_nat (length input) <=? m_pointer m') eqn:Hle.
      * subst r. apply eval_done; [exact Hstep | apply Z.leb_le; exact Hle].
      * apply eval_cont with m'; [exact Hstep | apply Z.leb_gt; exact Hle |].
        apply IH; assumption.
    + subst r. apply eval_ret. exact Hstep.
    + subst r. apply eval_fail. exact Hstep.
Qed.

Lemma eval_run : forall input base ov m r,
  eval input base ov m r -> exists f, run f input base ov m = r.
Proof.
  intros input base ov m r H.
  induction H as [m Hs | m u Hs | m m' Hs Hle | m m' r Hs Hlt _ [f IH]].
  - exists 1%nat. cbn [Spec.Url.run]. rewrite Hs. reflexivity.
  - exists 1%nat. cbn [Spec.Url.run]. rewrite Hs. reflexivity.
  - exists 1%nat. cbn [Spec.Url.run]. rewrite Hs.
    apply Z.leb_le in Hle. rewrite Hle. reflexivity.
  - exists (S f). cbn [Spec.Url.run]. rewrite Hs.
    apply Z.leb_gt in Hlt. rewrite Hlt. exact IH.
Qed.

Lemma eval_not_out_of_fuel : forall input base ov m r,
  eval input base ov m r -> r <> POutOfFuel.
Proof.
  intros input base ov m r H. induction H; try discriminate. assumption.
Qed.

Lemma eval_det : forall input base ov m r1 r2,
  eval input base ov m r1 -> eval input base ov m r2 -> r1 = r2.
Proof.
  intros input base ov m r1 r2 H1. revert r2.
  induction H1 as [m Hs | m u Hs | m m' Hs Hle | m m' r Hs Hlt _ IH];
    intros r2 H2; inversion H2 as [m0 Hs2 | m0 u2 Hs2 | m0 m2 Hs2 Hle2 | m0 m2 r0 Hs2 Hlt2 He2];
    subst; try congruence;
    assert (m2 = m') by congruence; subst m2;
    first [reflexivity | lia | apply IH; exact He2].
Qed.

(* [run] with any fuel that does not run out agrees with [eval] *)
Lemma eval_run_any : forall input base ov m r f,
  eval input base ov m r -> run f input base ov m <> POutOfFuel -> run f input base ov m = r.
Proof.
  intros input base ov m r f He Hf.
  apply eval_det with input base ov m; [|exact He].
  apply run_eval with f; [reflexivity | exact Hf].
Qed.

(* ------------------------------------------------------------------------------------ *)
(* the measure                                                                          *)
(* ------------------------------------------------------------------------------------ *)

(* order of the states: every transition to a different state goes strictly down *)
Definition rank (s : pstate) : Z :=
  match s with
  | Fragment => 0 | Query => 1 | Path => 2 | OpaquePath => 2 | PathStart => 3
  | Port => 4 | FileHost => 4 | Host => 5 | Hostname => 5 | FileSlash => 5
  | Authority => 6 | File => 6 | SpecialAuthorityIgnoreSlashes => 7 | PathOrAuthority => 7
  | SpecialAuthoritySlashes => 8 | RelativeSlash => 8 | Relative => 9
  | SpecialRelativeOrAuthority => 10 | NoScheme => 10 | Scheme => 11 | SchemeStart => 12
  end.

(* how many more passes over the rest of the input may still follow *)
Definition weight (s : pstate) : Z :=
  match s with
  | SchemeStart | Scheme | NoScheme | SpecialRelativeOrAuthority | PathOrAuthority | Relative
  | RelativeSlash | SpecialAuthoritySlashes | SpecialAuthorityIgnoreSlashes | Authority => 2
  | _ => 1
  end.

(* the scheme state may restart from the first code point: one full extra pass *)
Definition restart (s : pstate) : Z :=
  match s with SchemeStart | Scheme => 2 | _ => 0 end.

(* the authority state rewinds by the length of the buffer; the states before it only
   hand the buffer on *)
Definition uses_buffer (s : pstate) : bool :=
  match s with
  | SchemeStart | NoScheme | SpecialRelativeOrAuthority | PathOrAuthority | Relative
  | RelativeSlash | SpecialAuthoritySlashes | SpecialAuthorityIgnoreSlashes | Authority => true
  | _ => false
  end.

Definition potential_of (n : Z) (s : pstate) (p : Z) (blen : Z) : Z :=
  restart s * n + weight s * (n - p) + rank s + (if uses_buffer s then blen else 0).

Definition potential (input : str) (m : mstate) : Z :=
  potential_of (Z.of_nat (length input)) (m_state m) (m_pointer m) (Z.of_nat (length (m_buffer m))).

Lemma potential_nonneg : forall input m,
  m_pointer m <= Z.of_nat (length input) -> 0 <= potential input m.
Proof.
  intros input m Hp. unfold potential, potential_of.
  assert (0 <= Z.of_nat (length input)) by lia.
  assert (0 <= Z.of_nat (length (m_buffer m))) by lia.
  destruct (m_state m); cbn [restart weight rank uses_buffer]; lia.
Qed.

(* only the outermost case distinctions of [step] matter for state / pointer / buffer *)
Ltac head_cases H :=
  repeat (cbv zeta in H;
    match type of H with
    | (if ?c then _ else _) = _ => destruct c
    | (match ?c with Some _ => _ | None => _ end) = _ => destruct c
    | (match ?c with POpaque _ => _ | PList _ => _ end) = _ => destruct c
    | (let '(_, _) := ?c in _) = _ => destruct c
    end).

Ltac finish_step H :=
  try discriminate H;
  injection H as <-;
  cbn [m_state m_pointer m_buffer with_state with_url with_buffer with_pointer
       dec_pointer inc_pointer restart weight rank uses_buffer];
  rewrite ?app_length; cbn [length]; lia.

Lemma step_potential : forall input base ov m m',
  step input base ov m = Cont m' ->
  m_pointer m <= Z.of_nat (length input) ->
  potential input (inc_pointer m') < potential input m.
Proof.
  intros input base ov m m' H Hp.
  unfold potential, potential_of.
  assert (Hn : 0 <= Z.of_nat (length input)) by lia.
  assert (Hb : 0 <= Z.of_nat (length (m_buffer m))) by lia.
  revert Hn Hb Hp.
  generalize (Z.of_nat (length input)) as n. intros n Hn Hb Hp.
  unfold Spec.Url.step in H.
  destruct m as [st u b at_ br pw p].
  cbn [m_state m_pointer m_buffer m_url m_at m_brackets m_pwtoken] in *.
  destruct st; unfold goto, goto_dec in H; head_cases H; finish_step H.
Qed.

(* ------------------------------------------------------------------------------------ *)
(* totality                                                                             *)
(* ------------------------------------------------------------------------------------ *)

Lemma run_total : forall f input base ov m,
  m_pointer m <= Z.of_nat (length input) ->
  potential input m < Z.of_nat f ->
  run f input base ov m <> POutOfFuel.
Proof.
  induction f as [|f IH]; intros input base ov m Hp Hf.
  - pose proof (potential_nonneg input m Hp). lia.
  - cbn [Spec.Url.run].
    destruct (step input base ov m) as [m'|u|] eqn:Hstep; try discriminate.
    destruct (Z.of_nat (length input) <=? m_pointer m') eqn:Hle; [discriminate|].
    apply Z.leb_gt in Hle.
    pose proof (step_potential _ _ _ _ _ Hstep Hp) as Hdec.
    apply IH.
    + cbn [inc_pointer with_pointer m_pointer]. lia.
    + lia.
Qed.

(* every machine state has a result *)
Lemma eval_total : forall input base ov m,
  m_pointer m <= Z.of_nat (length input) -> exists r, eval input base ov m r.
Proof.
  intros input base ov m Hp.
  pose proof (potential_nonneg input m Hp) as H0.
  exists (run (S (Z.to_nat (potential input m))) input base ov m).
  apply run_eval with (S (Z.to_nat (potential input m))); [reflexivity|].
  apply run_total; [exact Hp | lia].
Qed.

Definition initial_m (st : pstate) (u : url) : mstate := mk_m st u [] false false false 0.

Lemma potential_initial : forall input st u,
  potential input (initial_m st u) < Z.of_nat (parse_fuel input).
Proof.
  intros input st u. unfold potential, potential_of, initial_m, parse_fuel.
  cbn [m_state m_pointer m_buffer length].
  destruct st; cbn [restart weight rank uses_buffer]; lia.
Qed.

Lemma run_parse_fuel_total : forall input base ov st u,
  run (parse_fuel input) input base ov (initial_m st u) <> POutOfFuel.
Proof.
  intros input base ov st u. apply run_total.
  - cbn. lia.
  - apply potential_initial.
Qed.

Lemma basic_parse_total : forall input base, basic_parse idna input base <> POutOfFuel.
Proof.
  intros input base. unfold basic_parse.
  apply (run_parse_fuel_total _ base None SchemeStart empty_url).
Qed.

(* holds for every override state, not only the ones the API uses *)
Lemma basic_parse_override_total_any : forall input u st,
  basic_parse_override idna input u st <> POutOfFuel.
Proof.
  intros input u st. unfold basic_parse_override.
  apply (run_parse_fuel_total _ None (Some st) st u).
Qed.

Definition api_override (st : pstate) : bool :=
  match st with
  | SchemeStart | Host | Hostname | Port | PathStart | Query | Fragment => true
  | _ => false
  end.

Lemma basic_parse_override_total : forall input u st,
  api_override st = true -> basic_parse_override idna input u st <> POutOfFuel.
Proof.
  intros input u st _. apply basic_parse_override_total_any.
Qed.

(* the results of the two entry points, as big-step evaluations *)
Lemma basic_parse_eval : forall input base,
  eval (remove_tab_newline (strip_c0_space input)) base None
       (initial_m SchemeStart empty_url) (basic_parse idna input base).
Proof.
  intros input base.
  apply run_eval with (parse_fuel (remove_tab_newline (strip_c0_space input))).
  - reflexivity.
  - apply basic_parse_total.
Qed.

Lemma basic_parse_override_eval : forall input u st,
  eval (remove_tab_newline input) None (Some st) (initial_m st u)
       (basic_parse_override idna input u st).
Proof.
  intros input u st.
  apply run_eval with (parse_fuel (remove_tab_newline input)).
  - reflexivity.
  - apply basic_parse_override_total_any.
Qed.

End WithIdna.
