(* C19, structural part: a small interleaving semantics for accesses to the library's shared
   (static-storage, non-const) variables, the C++11 rule for function-local statics, happens-before,
   data races, and a VERIFIED checker [race_free_b] over the inventory extracted from the source by
   out/t3_shared.py (Gen/Shared.v).

   Reading of the inventory (this is what the translator is trusted for):
   * an entry [mkVar v accs] lists EVERY access to variable v made by library code;
   * [mkAccess k g c]: an access of kind k (R read / W anything else) textually inside function g,
     in context c:
       InStaticLocalInit f  - performed only by the initialiser of THE function-local static of f
                              (C++11 [stmt.dcl]/4: run by the first thread whose control passes
                              through the declaration; concurrent arrivals wait for completion);
       AfterStaticLocal f   - performed by a thread only after that same thread's control has passed
                              the static-local declaration of f (in f after the declaration, or in a
                              caller of f after the call returned);
       InFunction g         - no such guarantee.

   SIMPLIFICATIONS (all of them):
   S1 sequentially consistent interleavings only; the conclusion "no data race in any interleaving"
      is the premise of the C++11 DRF guarantee, which is not re-proved here.
   S2 only accesses to the inventoried variables are events; everything else (locals, heap objects
      owned by one url object, ICU internals) is outside the model.
   S3 a thread is an arbitrary finite sequence of actions [Do e] / [Decl f] (= control passes through
      the static-local declaration of f) subject only to [wf_prog]: every event is an inventory
      access of a non-excluded function in a non-initialiser context, and every AfterStaticLocal f
      event is preceded, in that thread, by [Decl f].  Branches, loops, calls and returns are thereby
      over-approximated: any subset/repetition/order of a function's accesses is allowed.
      [thread_of_calls] shows that "any sequence of calls of non-excluded functions" has this shape.
   S4 one run of the initialiser of f performs an arbitrary finite sequence of the inventory's
      InStaticLocalInit f accesses (non-excluded); it does not itself pass through static-local
      declarations (nested static locals inside initialisers are not modelled).
   S5 an initialiser that exits by exception (the declaration is then retried by C++11) and
      recursive re-entry of the declaration (undefined behaviour) are not modelled; a thread reaching
      [Decl f] while another thread initialises f is simply blocked (no step).
   S6 the only synchronisation is the static-local rule (completion of the initialisation
      happens-before every later pass through the declaration) plus program order; thread creation /
      join edges, mutexes and atomics are not modelled (the library has none).
   S7 functions are identified by qualified name (overloads and template instantiations merged:
      the union of their accesses); excluded functions are never called by any thread, and no
      library function calls them (checked by the translator).
   S8 static (constant or dynamic) initialisation of namespace-scope variables is assumed to
      complete before any thread uses the library. *)
From Coq Require Import List Arith Bool Lia.
Import ListNotations.

Definition fn := nat.
Definition var := nat.
Definition tid := nat.

Inductive rw := R | W.
Inductive ctx :=
| InStaticLocalInit (f : fn)
| AfterStaticLocal (f : fn)
| InFunction (g : fn).

Record access := mkAccess { a_kind : rw; a_fn : fn; a_ctx : ctx }.
Record var_entry := mkVar { v_name : var; v_accesses : list access }.

Definition ctx_fn (c : ctx) : fn :=
  match c with InStaticLocalInit f | AfterStaticLocal f | InFunction f => f end.

(* ------------------------------------------------------------------ the checker *)

Fixpoint mem (x : nat) (l : list nat) : bool :=
  match l with [] => false | y :: l' => (x =? y) || mem x l' end.

Definition acc_excluded (excl : list fn) (a : access) : bool :=
  mem (a_fn a) excl || mem (ctx_fn (a_ctx a)) excl.

Definition is_write (a : access) : bool := match a_kind a with W => true | R => false end.

Definition ok_for (f : fn) (a : access) : bool :=
  match a_ctx a with
  | InStaticLocalInit g => g =? f
  | AfterStaticLocal g => (g =? f) && negb (is_write a)
  | InFunction _ => false
  end.

(* the accesses of one variable that threads may perform *)
Definition live (excl : list fn) (ve : var_entry) : list access :=
  filter (fun a => negb (acc_excluded excl a)) (v_accesses ve).

Definition var_ok (excl : list fn) (ve : var_entry) : bool :=
  match find is_write (live excl ve) with
  | None => true                       (* never written outside the excluded functions *)
  | Some w =>
      match a_ctx w with
      | InStaticLocalInit f => forallb (ok_for f) (live excl ve)
      | _ => false
      end
  end.

Fixpoint nodup_b (l : list nat) : bool :=
  match l with [] => true | x :: l' => negb (mem x l') && nodup_b l' end.

Definition race_free_b (inv : list var_entry) (excl : list fn) : bool :=
  nodup_b (map v_name inv) && forallb (var_ok excl) inv.

(* ------------------------------------------------------------------ the semantics *)

Inductive event := Acc (v : var) (k : rw) (c : ctx).
Definition ev_ctx (e : event) : ctx := match e with Acc _ _ c => c end.

(* an event the inventory allows a thread to perform *)
Definition allowed (inv : list var_entry) (excl : list fn) (e : event) : Prop :=
  match e with
  | Acc v k c =>
      exists ve a, In ve inv /\ v_name ve = v /\ In a (v_accesses ve) /\
                   a_kind a = k /\ a_ctx a = c /\ acc_excluded excl a = false
  end.

Inductive action :=
| Do (e : event)        (* perform an access *)
| Decl (f : fn).        (* control passes through the static-local declaration of f *)

Definition is_init_ctx (c : ctx) : Prop := match c with InStaticLocalInit _ => True | _ => False end.

(* no [AfterStaticLocal f] access before the first [Decl f] *)
Fixpoint guarded (f : fn) (p : list action) : Prop :=
  match p with
  | [] => True
  | Decl g :: p' => g = f \/ guarded f p'
  | Do (Acc _ _ (AfterStaticLocal g)) :: p' => g <> f /\ guarded f p'
  | Do _ :: p' => guarded f p'
  end.

Definition action_ok inv excl (a : action) : Prop :=
  match a with
  | Do e => allowed inv excl e /\ ~ is_init_ctx (ev_ctx e)
  | Decl _ => True
  end.

Definition wf_prog inv excl (p : list action) : Prop :=
  Forall (action_ok inv excl) p /\ forall f, guarded f p.

(* status of the static local of f; [Done t] remembers (ghost) which thread initialised it *)
Inductive status :=
| NotStarted
| Running (t : tid) (rem : list event)
| Done (t : tid).

Record state := mkState { pool : tid -> list action; st : fn -> status }.

Definition upd {A} (m : nat -> A) (x : nat) (a : A) : nat -> A :=
  fun y => if y =? x then a else m y.

Inductive label :=
| LAcc (e : event)
| LInitBegin (f : fn)
| LInitEnd (f : fn)
| LPass (f : fn).

(* one run of the initialiser of f: any sequence of allowed InStaticLocalInit f accesses *)
Definition init_run inv excl (f : fn) (rem : list event) : Prop :=
  Forall (fun e => allowed inv excl e /\ ev_ctx e = InStaticLocalInit f) rem.

Inductive step inv excl : state -> tid * label -> state -> Prop :=
| s_acc : forall s t e p,
    pool s t = Do e :: p ->
    step inv excl s (t, LAcc e) (mkState (upd (pool s) t p) (st s))
| s_begin : forall s t f p rem,           (* first arriver starts the initialisation *)
    pool s t = Decl f :: p -> st s f = NotStarted -> init_run inv excl f rem ->
    step inv excl s (t, LInitBegin f) (mkState (pool s) (upd (st s) f (Running t rem)))
| s_init : forall s t f p e rem,          (* the initialising thread performs the next init access *)
    pool s t = Decl f :: p -> st s f = Running t (e :: rem) ->
    step inv excl s (t, LAcc e) (mkState (pool s) (upd (st s) f (Running t rem)))
| s_end : forall s t f p,                 (* initialisation complete; the initialiser goes on *)
    pool s t = Decl f :: p -> st s f = Running t [] ->
    step inv excl s (t, LInitEnd f) (mkState (upd (pool s) t p) (upd (st s) f (Done t)))
| s_pass : forall s t f p t0,             (* later arrivals (and later calls) pass *)
    pool s t = Decl f :: p -> st s f = Done t0 ->
    step inv excl s (t, LPass f) (mkState (upd (pool s) t p) (st s)).
(* no rule for [Decl f] when [st s f = Running t' _] with t' <> t: the thread is blocked *)

Definition trace := list (tid * label).

Inductive reach inv excl (s0 : state) : trace -> state -> Prop :=
| reach_nil : reach inv excl s0 [] s0
| reach_snoc : forall tr s l s',
    reach inv excl s0 tr s -> step inv excl s l s' -> reach inv excl s0 (tr ++ [l]) s'.

Definition init_state (progs : tid -> list action) : state :=
  mkState progs (fun _ => NotStarted).

(* happens-before over trace positions: program order + "initialisation completion happens-before
   every pass through the declaration" *)
Inductive hb (tr : trace) : nat -> nat -> Prop :=
| hb_po : forall i j t l1 l2,
    i < j -> nth_error tr i = Some (t, l1) -> nth_error tr j = Some (t, l2) -> hb tr i j
| hb_init : forall i j t1 t2 f,
    i < j -> nth_error tr i = Some (t1, LInitEnd f) -> nth_error tr j = Some (t2, LPass f) ->
    hb tr i j
| hb_trans : forall i j k, hb tr i j -> hb tr j k -> hb tr i k.

Definition data_race (tr : trace) : Prop :=
  exists i j t1 t2 v k1 k2 c1 c2,
    i < j /\
    nth_error tr i = Some (t1, LAcc (Acc v k1 c1)) /\
    nth_error tr j = Some (t2, LAcc (Acc v k2 c2)) /\
    t1 <> t2 /\ (k1 = W \/ k2 = W) /\ ~ hb tr i j.

(* ------------------------------------------------------------------ checker lemmas *)

Lemma mem_In : forall x l, mem x l = true <-> In x l.
Proof.
  induction l as [|y l IH]; cbn; [split; [discriminate|tauto]|].
  rewrite orb_true_iff, Nat.eqb_eq, IH. split; intros [H|H]; auto.
Qed.

Lemma nodup_b_NoDup : forall l, nodup_b l = true -> NoDup l.
Proof.
  induction l as [|x l IH]; cbn; intros H; [constructor|].
  apply andb_true_iff in H as [Hx Hl]. constructor; auto.
  intros Hin. apply mem_In in Hin. rewrite Hin in Hx. discriminate.
Qed.

Lemma entry_unique : forall (inv : list var_entry) ve1 ve2,
  NoDup (map v_name inv) -> In ve1 inv -> In ve2 inv -> v_name ve1 = v_name ve2 -> ve1 = ve2.
Proof.
  induction inv as [|ve inv IH]; cbn; intros ve1 ve2 Hnd H1 H2 Hn; [tauto|].
  inversion Hnd as [|? ? Hnotin Hnd']; subst.
  destruct H1 as [<-|H1], H2 as [<-|H2]; auto.
  - exfalso. apply Hnotin. rewrite Hn. now apply in_map.
  - exfalso. apply Hnotin. rewrite <- Hn. now apply in_map.
Qed.

(* what the checker establishes for two allowed accesses to one variable, one of them a write *)
Definition good (f : fn) (k : rw) (c : ctx) : Prop :=
  c = InStaticLocalInit f \/ (c = AfterStaticLocal f /\ k = R).

Lemma ok_for_good : forall f a, ok_for f a = true -> good f (a_kind a) (a_ctx a).
Proof.
  intros f a. unfold ok_for, good, is_write. destruct (a_ctx a) as [g|g|g]; intros H.
  - apply Nat.eqb_eq in H. subst. now left.
  - apply andb_true_iff in H as [H1 H2]. apply Nat.eqb_eq in H1. subst.
    right. split; auto. now destruct (a_kind a).
  - discriminate.
Qed.

Lemma checker_pair : forall inv excl v k1 c1 k2 c2,
  race_free_b inv excl = true ->
  allowed inv excl (Acc v k1 c1) -> allowed inv excl (Acc v k2 c2) ->
  k1 = W \/ k2 = W ->
  exists f, good f k1 c1 /\ good f k2 c2.
Proof.
  intros inv excl v k1 c1 k2 c2 Hb H1 H2 Hw.
  apply andb_true_iff in Hb as [Hnd Hall]. apply nodup_b_NoDup in Hnd.
  destruct H1 as (ve1 & a1 & Hin1 & Hn1 & Ha1 & Hk1 & Hc1 & Hx1).
  destruct H2 as (ve2 & a2 & Hin2 & Hn2 & Ha2 & Hk2 & Hc2 & Hx2).
  assert (ve2 = ve1) by (apply (entry_unique inv); auto; congruence). subst ve2.
  rewrite forallb_forall in Hall. specialize (Hall _ Hin1). unfold var_ok in Hall.
  assert (L1 : In a1 (live excl ve1)) by (apply filter_In; rewrite Hx1; auto).
  assert (L2 : In a2 (live excl ve1)) by (apply filter_In; rewrite Hx2; auto).
  destruct (find is_write (live excl ve1)) as [w|] eqn:Hf.
  - destruct (a_ctx w) as [f|f|f] eqn:Hcw; try discriminate.
    rewrite forallb_forall in Hall. exists f. subst k1 c1 k2 c2.
    split; apply ok_for_good; auto.
  - exfalso. destruct Hw as [Hw|Hw].
    + apply (find_none _ _ Hf) in L1. unfold is_write in L1. rewrite Hk1, Hw in L1. discriminate.
    + apply (find_none _ _ Hf) in L2. unfold is_write in L2. rewrite Hk2, Hw in L2. discriminate.
Qed.

(* ------------------------------------------------------------------ trace facts *)

Lemma nth_snoc : forall {A} (l : list A) x j y,
  nth_error (l ++ [x]) j = Some y ->
  (j < length l /\ nth_error l j = Some y) \/ (j = length l /\ y = x).
Proof.
  intros A l x j y H. destruct (Nat.lt_ge_cases j (length l)) as [Hlt|Hge].
  - left. split; auto. now rewrite nth_error_app1 in H.
  - right. rewrite nth_error_app2 in H by auto.
    destruct (j - length l) as [|n] eqn:E.
    + cbn in H. inversion H. split; auto. lia.
    + cbn in H. destruct n; discriminate.
Qed.

Lemma nth_mono : forall {A} (l : list A) x j y,
  nth_error l j = Some y -> nth_error (l ++ [x]) j = Some y.
Proof.
  intros. rewrite nth_error_app1; auto. apply nth_error_Some. congruence.
Qed.

Lemma nth_last : forall {A} (l : list A) x, nth_error (l ++ [x]) (length l) = Some x.
Proof. intros. rewrite nth_error_app2, Nat.sub_diag; auto. Qed.

Lemma nth_lt : forall {A} (l : list A) j y, nth_error l j = Some y -> j < length l.
Proof. intros. apply nth_error_Some. congruence. Qed.

Definition init_acc (f : fn) (l : label) : Prop := exists v k, l = LAcc (Acc v k (InStaticLocalInit f)).

(* the thread t has passed the declaration of f strictly before position j *)
Definition passed_before (tr : trace) (t : tid) (f : fn) (j : nat) : Prop :=
  exists p, p < j /\ (nth_error tr p = Some (t, LPass f) \/ nth_error tr p = Some (t, LInitEnd f)).

Definition invA inv excl (tr : trace) (s : state) (f : fn) : Prop :=
  match st s f with
  | NotStarted =>
      forall i t l, nth_error tr i = Some (t, l) ->
                    l <> LInitEnd f /\ l <> LPass f /\ ~ init_acc f l
  | Running t0 rem =>
      (forall i t l, nth_error tr i = Some (t, l) -> l <> LInitEnd f /\ l <> LPass f) /\
      (forall i t l, nth_error tr i = Some (t, l) -> init_acc f l -> t = t0) /\
      init_run inv excl f rem /\
      (exists p, pool s t0 = Decl f :: p)
  | Done t0 =>
      exists q, nth_error tr q = Some (t0, LInitEnd f) /\
                (forall i t, nth_error tr i = Some (t, LInitEnd f) -> i = q) /\
                (forall i t l, nth_error tr i = Some (t, l) -> init_acc f l -> t = t0 /\ i < q) /\
                (forall i t, nth_error tr i = Some (t, LPass f) -> q < i)
  end.

Record Inv inv excl (tr : trace) (s : state) : Prop := {
  iA : forall f, invA inv excl tr s f;
  iB : forall t, Forall (action_ok inv excl) (pool s t);
  iC : forall t f, passed_before tr t f (length tr) \/ guarded f (pool s t);
  iD : forall j t v k f, nth_error tr j = Some (t, LAcc (Acc v k (AfterStaticLocal f))) ->
                         passed_before tr t f j;
  iE : forall j t e, nth_error tr j = Some (t, LAcc e) -> allowed inv excl e
}.

Lemma passed_mono : forall tr x t f j, passed_before tr t f j -> passed_before (tr ++ [x]) t f j.
Proof.
  intros tr x t f j (p & Hp & H). exists p. split; auto.
  destruct H as [H|H]; [left|right]; now apply nth_mono.
Qed.

Lemma passed_le : forall tr t f j j', passed_before tr t f j -> j <= j' -> passed_before tr t f j'.
Proof. intros tr t f j j' (p & Hp & H) Hle. exists p. split; auto. lia. Qed.

Lemma upd_same : forall {A} (m : nat -> A) x a, upd m x a x = a.
Proof. intros. unfold upd. now rewrite Nat.eqb_refl. Qed.

Lemma upd_other : forall {A} (m : nat -> A) x a y, y <> x -> upd m x a y = m y.
Proof. intros. unfold upd. destruct (Nat.eqb_spec y x); congruence. Qed.

Lemma init_acc_ctx : forall f e, init_acc f (LAcc e) <-> ev_ctx e = InStaticLocalInit f.
Proof.
  intros f [v k c]. unfold init_acc. cbn. split.
  - intros (v' & k' & H). inversion H. reflexivity.
  - intros ->. eauto.
Qed.

Lemma Inv_init : forall inv excl progs,
  (forall t, wf_prog inv excl (progs t)) -> Inv inv excl [] (init_state progs).
Proof.
  intros inv excl progs Hwf. constructor; cbn.
  - intros f. unfold invA. cbn. intros i t l H. destruct i; discriminate.
  - intros t. apply Hwf.
  - intros t f. right. apply Hwf.
  - intros j t v k f H. destruct j; discriminate.
  - intros j t e H. destruct j; discriminate.
Qed.

(* a label that is "about" no static local: used for the steps that do not concern f *)
Definition neutral_for (f : fn) (l : label) : Prop :=
  l <> LInitEnd f /\ l <> LPass f /\ ~ init_acc f l.

Lemma invA_neutral : forall inv excl tr s s' t l f,
  invA inv excl tr s f ->
  st s' f = st s f ->
  neutral_for f l ->
  (forall t0 rem p, st s f = Running t0 rem -> pool s t0 = Decl f :: p ->
                    exists p', pool s' t0 = Decl f :: p') ->
  invA inv excl (tr ++ [(t, l)]) s' f.
Proof.
  intros inv excl tr s s' t l f HA Hst (N1 & N2 & N3) Hpool.
  unfold invA in *. rewrite Hst. destruct (st s f) as [|t0 rem|t0] eqn:E.
  - intros i t' l' H. apply nth_snoc in H as [[_ H]|[_ H]]; [eauto|].
    inversion H; subst. auto.
  - destruct HA as (A1 & A2 & A3 & p & A4). split; [|split; [|split]].
    + intros i t' l' H. apply nth_snoc in H as [[_ H]|[_ H]]; [eapply A1; eauto|].
      inversion H; subst; auto.
    + intros i t' l' H Hi. apply nth_snoc in H as [[_ H]|[_ H]]; [eauto|].
      inversion H; subst. contradiction.
    + exact A3.
    + eapply Hpool; eauto.
  - destruct HA as (q & Q1 & Q2 & Q3 & Q4). exists q. split; [|split; [|split]].
    + now apply nth_mono.
    + intros i t' H. apply nth_snoc in H as [[_ H]|[_ H]]; [eauto|]. inversion H; subst. congruence.
    + intros i t' l' H Hi. apply nth_snoc in H as [[_ H]|[_ H]]; [eapply Q3; eauto|].
      inversion H; subst. contradiction.
    + intros i t' H. apply nth_snoc in H as [[_ H]|[_ H]]; [eauto|]. inversion H; subst. congruence.
Qed.

Lemma guarded_pop_do : forall f e p, guarded f (Do e :: p) -> guarded f p.
Proof. intros f [v k [g|g|g]] p H; cbn in H; tauto. Qed.

Lemma not_init_acc_other : forall f l, (forall v k c, l <> LAcc (Acc v k c)) -> ~ init_acc f l.
Proof. intros f l H (v & k & E). eapply H; eauto. Qed.

Lemma Inv_step : forall inv excl tr s l s',
  Inv inv excl tr s -> step inv excl s l s' -> Inv inv excl (tr ++ [l]) s'.
Proof.
  intros inv excl tr s l s' [HA HB HC HD HE] Hstep.
  destruct Hstep as [s t e p Hp | s t f p rem Hp Hst Hrun | s t f p e rem Hp Hst
                    | s t f p Hp Hst | s t f p t0 Hp Hst].
  - (* s_acc *)
    pose proof (HB t) as HBt. rewrite Hp in HBt. inversion HBt as [|? ? Hok HBp]; subst. cbn in Hok. destruct Hok as [Hal Hni].
    constructor; cbn.
    + intros f. eapply invA_neutral; eauto.
      * split; [discriminate|split; [discriminate|]].
        rewrite init_acc_ctx. intros Hc. apply Hni. now rewrite Hc.
      * cbn. intros t0 rem0 p0 _ Hp0. destruct (Nat.eq_dec t0 t) as [->|Hne].
        -- rewrite Hp in Hp0. discriminate.
        -- rewrite upd_other by auto. eauto.
    + intros t'. destruct (Nat.eq_dec t' t) as [->|Hne].
      * now rewrite upd_same.
      * rewrite upd_other by auto. apply HB.
    + intros t' f. rewrite app_length. cbn.
      destruct (HC t' f) as [H|H].
      * left. apply passed_mono. eapply passed_le; eauto. lia.
      * destruct (Nat.eq_dec t' t) as [->|Hne].
        -- right. rewrite upd_same. rewrite Hp in H. eapply guarded_pop_do; eauto.
        -- right. now rewrite upd_other by auto.
    + intros j t' v k f H. apply nth_snoc in H as [[_ H]|[Hj H]].
      * apply passed_mono. eauto.
      * inversion H; subst. apply passed_mono.
        destruct (HC t f) as [Hpass|Hg]; auto.
        rewrite Hp in Hg. cbn in Hg. tauto.
    + intros j t' e' H. apply nth_snoc in H as [[_ H]|[_ H]]; [eauto|]. inversion H; subst. auto.
  - (* s_begin *)
    constructor; cbn.
    + intros f'. destruct (Nat.eq_dec f' f) as [->|Hne].
      * pose proof (HA f) as HAf. unfold invA in *. cbn. rewrite upd_same. rewrite Hst in HAf.
        split; [|split; [|split]].
        -- intros i t' l' H. apply nth_snoc in H as [[_ H]|[_ H]].
           ++ apply HAf in H. tauto.
           ++ inversion H; subst. split; discriminate.
        -- intros i t' l' H Hi. apply nth_snoc in H as [[_ H]|[_ H]].
           ++ exfalso. apply HAf in H. tauto.
           ++ inversion H; subst. destruct Hi as (v & k & Hi). discriminate.
        -- exact Hrun.
        -- eauto.
      * eapply invA_neutral; eauto.
        -- cbn. now rewrite upd_other by auto.
        -- split; [discriminate|split; [discriminate|]]. apply not_init_acc_other. discriminate.
    + exact HB.
    + intros t' f'. rewrite app_length. cbn. destruct (HC t' f') as [H|H]; auto.
      left. apply passed_mono. eapply passed_le; eauto. lia.
    + intros j t' v k f' H. apply nth_snoc in H as [[_ H]|[_ H]].
      * apply passed_mono. eauto.
      * inversion H.
    + intros j t' e' H. apply nth_snoc in H as [[_ H]|[_ H]]; [eauto|]. inversion H.
  - (* s_init *)
    pose proof (HA f) as HAf. unfold invA in HAf. rewrite Hst in HAf.
    destruct HAf as (A1 & A2 & A3 & A4).
    inversion A3 as [|? ? Hok A3']; subst. destruct Hok as [Hal Hce].
    constructor; cbn.
    + intros f'. destruct (Nat.eq_dec f' f) as [->|Hne].
      * unfold invA. cbn. rewrite upd_same. split; [|split; [|split]].
        -- intros i t' l' H. apply nth_snoc in H as [[_ H]|[_ H]]; [eapply A1; eauto|].
           inversion H; subst. split; discriminate.
        -- intros i t' l' H Hi. apply nth_snoc in H as [[_ H]|[_ H]]; [eauto|]. now inversion H.
        -- exact A3'.
        -- exact A4.
      * eapply invA_neutral; eauto.
        -- cbn. now rewrite upd_other by auto.
        -- split; [discriminate|split; [discriminate|]]. rewrite init_acc_ctx, Hce. congruence.
    + exact HB.
    + intros t' f'. rewrite app_length. cbn. destruct (HC t' f') as [H|H]; auto.
      left. apply passed_mono. eapply passed_le; eauto. lia.
    + intros j t' v k f' H. apply nth_snoc in H as [[_ H]|[_ H]].
      * apply passed_mono. eauto.
      * inversion H; subst. cbn in Hce. discriminate.
    + intros j t' e' H. apply nth_snoc in H as [[_ H]|[_ H]]; [eauto|]. inversion H; subst. auto.
  - (* s_end *)
    pose proof (HA f) as HAf. unfold invA in HAf. rewrite Hst in HAf.
    destruct HAf as (A1 & A2 & A3 & A4).
    constructor; cbn.
    + intros f'. destruct (Nat.eq_dec f' f) as [->|Hne].
      * unfold invA. cbn. rewrite upd_same. exists (length tr). split; [|split; [|split]].
        -- apply nth_last.
        -- intros i t' H. apply nth_snoc in H as [[_ H]|[Hi _]]; auto.
           exfalso. apply A1 in H. tauto.
        -- intros i t' l' H Hi. apply nth_snoc in H as [[Hlt H]|[_ H]]; [split; eauto|].
           inversion H; subst. destruct Hi as (v & k & Hi). discriminate.
        -- intros i t' H. apply nth_snoc in H as [[_ H]|[_ H]].
           ++ exfalso. apply A1 in H. tauto.
           ++ inversion H.
      * eapply invA_neutral; eauto.
        -- cbn. now rewrite upd_other by auto.
        -- split; [congruence|split; [discriminate|]]. apply not_init_acc_other. discriminate.
        -- cbn. intros t0 rem0 p0 Hst0 Hp0. destruct (Nat.eq_dec t0 t) as [->|Hnet].
           ++ rewrite Hp in Hp0. congruence.
           ++ rewrite upd_other by auto. eauto.
    + intros t'. destruct (Nat.eq_dec t' t) as [->|Hne].
      * rewrite upd_same. pose proof (HB t) as HBt. rewrite Hp in HBt. now inversion HBt.
      * rewrite upd_other by auto. apply HB.
    + intros t' f'. rewrite app_length. cbn.
      destruct (Nat.eq_dec t' t) as [->|Hnet].
      * destruct (HC t f') as [H|H].
        -- left. apply passed_mono. eapply passed_le; eauto. lia.
        -- rewrite Hp in H. cbn in H. destruct H as [->|H].
           ++ left. exists (length tr). split; [lia|]. right. apply nth_last.
           ++ right. now rewrite upd_same.
      * rewrite upd_other by auto. destruct (HC t' f') as [H|H]; auto.
        left. apply passed_mono. eapply passed_le; eauto. lia.
    + intros j t' v k f' H. apply nth_snoc in H as [[_ H]|[_ H]].
      * apply passed_mono. eauto.
      * inversion H.
    + intros j t' e' H. apply nth_snoc in H as [[_ H]|[_ H]]; [eauto|]. inversion H.
  - (* s_pass *)
    pose proof (HA f) as HAf. unfold invA in HAf. rewrite Hst in HAf.
    destruct HAf as (q & Q1 & Q2 & Q3 & Q4).
    constructor; cbn.
    + intros f'. destruct (Nat.eq_dec f' f) as [->|Hne].
      * unfold invA. cbn. rewrite Hst. exists q. split; [|split; [|split]].
        -- now apply nth_mono.
        -- intros i t' H. apply nth_snoc in H as [[_ H]|[_ H]]; [eauto|]. inversion H.
        -- intros i t' l' H Hi. apply nth_snoc in H as [[_ H]|[_ H]]; [eapply Q3; eauto|].
           inversion H; subst. destruct Hi as (v & k & Hi). discriminate.
        -- intros i t' H. apply nth_snoc in H as [[_ H]|[Hi _]]; [eauto|].
           subst i. now apply nth_lt in Q1.
      * eapply invA_neutral; eauto.
        -- split; [discriminate|split; [congruence|]]. apply not_init_acc_other. discriminate.
        -- cbn. intros t1 rem0 p0 Hst0 Hp0. destruct (Nat.eq_dec t1 t) as [->|Hnet].
           ++ rewrite Hp in Hp0. congruence.
           ++ rewrite upd_other by auto. eauto.
    + intros t'. destruct (Nat.eq_dec t' t) as [->|Hne].
      * rewrite upd_same. pose proof (HB t) as HBt. rewrite Hp in HBt. now inversion HBt.
      * rewrite upd_other by auto. apply HB.
    + intros t' f'. rewrite app_length. cbn.
      destruct (Nat.eq_dec t' t) as [->|Hnet].
      * destruct (HC t f') as [H|H].
        -- left. apply passed_mono. eapply passed_le; eauto. lia.
        -- rewrite Hp in H. cbn in H. destruct H as [->|H].
           ++ left. exists (length tr). split; [lia|]. left. apply nth_last.
           ++ right. now rewrite upd_same.
      * rewrite upd_other by auto. destruct (HC t' f') as [H|H]; auto.
        left. apply passed_mono. eapply passed_le; eauto. lia.
    + intros j t' v k f' H. apply nth_snoc in H as [[_ H]|[_ H]].
      * apply passed_mono. eauto.
      * inversion H.
    + intros j t' e' H. apply nth_snoc in H as [[_ H]|[_ H]]; [eauto|]. inversion H.
Qed.

Lemma Inv_reach : forall inv excl progs tr s,
  (forall t, wf_prog inv excl (progs t)) ->
  reach inv excl (init_state progs) tr s -> Inv inv excl tr s.
Proof.
  intros inv excl progs tr s Hwf Hr. induction Hr.
  - now apply Inv_init.
  - eapply Inv_step; eauto.
Qed.

(* ------------------------------------------------------------------ soundness *)

Theorem race_free_sound : forall inv excl,
  race_free_b inv excl = true ->
  forall progs, (forall t, wf_prog inv excl (progs t)) ->
  forall tr s, reach inv excl (init_state progs) tr s -> ~ data_race tr.
Proof.
  intros inv excl Hb progs Hwf tr s Hr.
  pose proof (Inv_reach _ _ _ _ _ Hwf Hr) as [HA _ _ HD HE].
  intros (i & j & t1 & t2 & v & k1 & k2 & c1 & c2 & Hij & Hi & Hj & Hne & Hw & Hnhb).
  destruct (checker_pair inv excl v k1 c1 k2 c2 Hb (HE _ _ _ Hi) (HE _ _ _ Hj) Hw)
    as (f & G1 & G2).
  pose proof (HA f) as HAf. unfold invA in HAf.
  assert (I1 : c1 = InStaticLocalInit f -> init_acc f (LAcc (Acc v k1 c1)))
    by (intros ->; red; eauto).
  assert (I2 : c2 = InStaticLocalInit f -> init_acc f (LAcc (Acc v k2 c2)))
    by (intros ->; red; eauto).
  destruct G1 as [E1|[E1 K1]], G2 as [E2|[E2 K2]].
  - (* both inside the initialiser: same thread *)
    destruct (st s f) as [|t0 rem|t0].
    + eapply HAf; eauto.
    + destruct HAf as (_ & A2 & _). apply Hne.
      rewrite (A2 _ _ _ Hi (I1 E1)), (A2 _ _ _ Hj (I2 E2)). reflexivity.
    + destruct HAf as (q & _ & _ & Q3 & _). apply Hne.
      destruct (Q3 _ _ _ Hi (I1 E1)) as [-> _], (Q3 _ _ _ Hj (I2 E2)) as [-> _]. reflexivity.
  - (* initialiser access first, guarded access later: ordered by happens-before *)
    subst c2. destruct (HD _ _ _ _ _ Hj) as (p & Hpj & Hp).
    destruct (st s f) as [|t0 rem|t0].
    + destruct Hp as [Hp|Hp]; eapply HAf in Hp; tauto.
    + destruct HAf as (A1 & _). destruct Hp as [Hp|Hp]; apply A1 in Hp; tauto.
    + destruct HAf as (q & Q1 & Q2 & Q3 & Q4).
      destruct (Q3 _ _ _ Hi (I1 E1)) as [-> Hiq].
      destruct Hp as [Hp|Hp].
      * apply Hnhb. pose proof (Q4 _ _ Hp) as Hqp.
        eapply hb_trans; [eapply hb_po; [exact Hiq|exact Hi|exact Q1]|].
        eapply hb_trans; [eapply hb_init; [exact Hqp|exact Q1|exact Hp]|].
        eapply hb_po; [exact Hpj|exact Hp|exact Hj].
      * pose proof (Q2 _ _ Hp) as ->. rewrite Q1 in Hp. inversion Hp. congruence.
  - (* guarded access first, initialiser access later: impossible *)
    subst c1. destruct (HD _ _ _ _ _ Hi) as (p & Hpi & Hp).
    destruct (st s f) as [|t0 rem|t0].
    + destruct Hp as [Hp|Hp]; eapply HAf in Hp; tauto.
    + destruct HAf as (A1 & _). destruct Hp as [Hp|Hp]; apply A1 in Hp; tauto.
    + destruct HAf as (q & Q1 & Q2 & Q3 & Q4).
      destruct (Q3 _ _ _ Hj (I2 E2)) as [_ Hjq].
      destruct Hp as [Hp|Hp].
      * pose proof (Q4 _ _ Hp). lia.
      * pose proof (Q2 _ _ Hp). lia.
  - (* two reads *)
    destruct Hw; congruence.
Qed.

(* ------------------------------------------------------------------ threads as sequences of calls *)

(* A call performs accesses [pre] (not relying on any static local), then control passes through
   the static-local declaration of [f] (the callee's own, or that of a function it calls), then it
   performs accesses [post], among them those tagged AfterStaticLocal f.  A function without any
   static local is the special case post = [] (or use any f: passing a declaration whose
   initialiser touches no shared variable is invisible). *)
Record call := mkCall { c_pre : list event; c_decl : fn; c_post : list event }.

Definition call_actions (c : call) : list action :=
  map Do (c_pre c) ++ Decl (c_decl c) :: map Do (c_post c).

Definition is_infun (c : ctx) : Prop := exists g, c = InFunction g.

Definition call_ok inv excl (c : call) : Prop :=
  Forall (fun e => allowed inv excl e /\ is_infun (ev_ctx e)) (c_pre c) /\
  Forall (fun e => allowed inv excl e /\
                   (is_infun (ev_ctx e) \/ ev_ctx e = AfterStaticLocal (c_decl c))) (c_post c).

Definition thread_of_calls (cs : list call) : list action := flat_map call_actions cs.

Lemma guarded_app_plain : forall f es p,
  Forall (fun e => is_infun (ev_ctx e)) es -> guarded f p -> guarded f (map Do es ++ p).
Proof.
  induction es as [|[v k c] es IH]; cbn; intros p H Hp; auto.
  inversion H as [|? ? [g Hg] H']; subst. cbn in Hg. subst c. cbn. auto.
Qed.

Lemma guarded_app_other : forall f g es p,
  Forall (fun e => is_infun (ev_ctx e) \/ ev_ctx e = AfterStaticLocal g) es ->
  g <> f -> guarded f p -> guarded f (map Do es ++ p).
Proof.
  induction es as [|[v k c] es IH]; cbn; intros p H Hne Hp; auto.
  inversion H as [|? ? Hc H']; subst. cbn in Hc. destruct Hc as [[h Hc]|Hc]; rewrite Hc; cbn; auto.
Qed.

Lemma thread_of_calls_wf : forall inv excl cs,
  Forall (call_ok inv excl) cs -> wf_prog inv excl (thread_of_calls cs).
Proof.
  intros inv excl cs H. split.
  - induction H as [|c cs [Hpre Hpost] _ IH]; cbn; [constructor|].
    unfold call_actions. rewrite <- app_assoc. apply Forall_app. split.
    + apply Forall_map. eapply Forall_impl; [|exact Hpre]. cbn. intros e [Ha [g Hg]].
      split; auto. rewrite Hg. cbn. tauto.
    + cbn. constructor; [exact I|]. apply Forall_app. split; auto.
      apply Forall_map. eapply Forall_impl; [|exact Hpost]. cbn. intros e [Ha Hc].
      split; auto. destruct Hc as [[g Hc]|Hc]; rewrite Hc; cbn; tauto.
  - intros f. induction H as [|c cs [Hpre Hpost] _ IH]; cbn; auto.
    unfold call_actions. rewrite <- app_assoc. apply guarded_app_plain.
    + eapply Forall_impl; [|exact Hpre]. cbn. tauto.
    + cbn. destruct (Nat.eq_dec (c_decl c) f) as [E|E]; [now left|right].
      eapply guarded_app_other; eauto.
      eapply Forall_impl; [|exact Hpost]. cbn. tauto.
Qed.

Corollary race_free_sound_calls : forall inv excl,
  race_free_b inv excl = true ->
  forall calls : tid -> list call, (forall t, Forall (call_ok inv excl) (calls t)) ->
  forall tr s, reach inv excl (init_state (fun t => thread_of_calls (calls t))) tr s ->
  ~ data_race tr.
Proof.
  intros inv excl Hb calls Hok. apply race_free_sound; auto.
  intros t. apply thread_of_calls_wf. apply Hok.
Qed.

(* ------------------------------------------------------------------ the checker is not vacuous:
   an unguarded lazy initialisation (what the mutant does) really has a racy execution *)
Example lazy_init_races :
  let inv := [mkVar 0 [mkAccess R 0 (InFunction 0); mkAccess W 0 (InFunction 0)]] in
  race_free_b inv [] = false /\
  exists progs tr s, (forall t, wf_prog inv [] (progs t)) /\
                     reach inv [] (init_state progs) tr s /\ data_race tr.
Proof.
  cbn zeta. split; [reflexivity|].
  set (inv := [mkVar 0 [mkAccess R 0 (InFunction 0); mkAccess W 0 (InFunction 0)]]).
  set (eW := Acc 0 W (InFunction 0)).
  set (progs := fun t : tid => match t with 0 | 1 => [Do eW] | _ => [] end).
  assert (Hal : allowed inv [] eW).
  { exists (mkVar 0 [mkAccess R 0 (InFunction 0); mkAccess W 0 (InFunction 0)]),
           (mkAccess W 0 (InFunction 0)). cbn. tauto. }
  exists progs, ([] ++ [(0, LAcc eW)] ++ [(1, LAcc eW)]),
         (mkState (upd (upd progs 0 []) 1 []) (fun _ => NotStarted)).
  split; [|split].
  - intros t. split.
    + destruct t as [|[|t]]; cbn; repeat constructor; auto.
    + intros f. destruct t as [|[|t]]; cbn; auto.
  - rewrite app_assoc. eapply reach_snoc with (s := mkState (upd progs 0 []) (fun _ => NotStarted)).
    + eapply reach_snoc with (s := init_state progs); [constructor|].
      apply (s_acc inv [] (init_state progs) 0 eW []). reflexivity.
    + apply (s_acc inv [] (mkState (upd progs 0 []) (fun _ => NotStarted)) 1 eW []). reflexivity.
  - exists 0, 1, 0, 1, 0, W, W, (InFunction 0), (InFunction 0). cbn.
    repeat split; auto.
    intros H.
    assert (G : forall i j, hb [(0, LAcc eW); (1, LAcc eW)] i j -> False).
    { clear. intros i j H. induction H as [i j t l1 l2 Hlt H1 H2|i j t1 t2 f Hlt H1 H2|]; auto.
      - destruct i as [|[|i]]; cbn in H1; try discriminate;
        destruct j as [|[|j]]; cbn in H2; try discriminate; try lia.
        all: try (destruct j; discriminate); try (destruct i; discriminate).
        inversion H1; inversion H2; congruence.
      - destruct i as [|[|i]]; cbn in H1; try discriminate. destruct i; discriminate. }
    eapply G; eauto.
Qed.
