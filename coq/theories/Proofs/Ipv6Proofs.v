(* C12 — IPv6 parser and serializer: entry point collecting the lemmas.
   Ipv6Base  : get_nth/set_nth, 65 536 sweep, table facts, hex tokens, token printing
   Ipv6Ser   : serializers as tokens, Impl = Spec, find_compress = first longest run
   Ipv6Parse : Impl parser = Spec parser, shape of parsed addresses
   Ipv6Round : parse (serialize a) = Some a *)
From Upa Require Export Proofs.Ipv6Base Proofs.Ipv6Ser Proofs.Ipv6Parse Proofs.Ipv6Round.
From Upa Require Import Base.Prelude.
Local Open Scope N_scope.

Lemma find_compress_first_longest8 (a : list N) : length a = 8%nat ->
  match Upa.Spec.Ip.find_compress a 0 None with
  | Some (i, r) =>
      (i < 8)%nat /\ r = Upa.Spec.Ip.zero_run (skipn i a) /\ (2 <= r)%nat /\
      (forall j, (Upa.Spec.Ip.zero_run (skipn j a) <= Upa.Spec.Ip.zero_run (skipn i a))%nat) /\
      (forall j, (j < i)%nat -> (Upa.Spec.Ip.zero_run (skipn j a) < Upa.Spec.Ip.zero_run (skipn i a))%nat)
  | None => forall j, (Upa.Spec.Ip.zero_run (skipn j a) < 2)%nat
  end.
Proof. intro H. pose proof (find_compress_first_longest a) as L. rewrite H in L. exact L. Qed.
