(* C05 — link of the history theorem (Proofs/HistoryProofs.v) to the protocol interpreter
   Spec.Proto.exec.  The interpreter has three commands whose result is not a [hop]: parse_sb /
   ctor_sb (the base is given as a string, not as an object) and fromfile (the constructed object
   is the parse of a text generated from a file path).  [xhop] adds them; every command of the
   interpreter is then at most one [xstep], and the history theorem holds of [xhop] histories,
   hence of every run of the protocol. *)
From Upa Require Import Base.Prelude Spec.CodePoints Spec.Utf Spec.Percent Spec.Ip Spec.UrlEncoded Spec.Url Spec.Api
  Spec.FilePath Spec.Proto Impl.Parser Impl.Api.
From Upa Require Import Proofs.UtfFacts Proofs.UrlEncodedProofs Proofs.SearchParamsProofs
  Proofs.CanonDefs Proofs.CanonStep Proofs.CanonProofs Proofs.ReparseDefs Proofs.ReparseProofs Proofs.Canon2Proofs
  Proofs.LockstepProofs Proofs.LockstepExec Proofs.SetterCompose Proofs.ComposeFinal Proofs.FilePathProofs
  Proofs.HistoryProofs.
From Upa Require Properties_C07 Properties_C08.
From Coq Require Import ZifyBool ZifyN ZifyNat.
Local Open Scope N_scope.

(* ------------------------------------------------------------------------------------------ *)
(* 1. the three additional operations                                                          *)
(* ------------------------------------------------------------------------------------------ *)
Inductive xhop :=
| XHop (h : hop)
| XParseSB (i : nat) (e : enc) (units : list N) (eb : enc) (bunits : list N)  (* parse(str, str_base) *)
| XCtorSB (i : nat) (e : enc) (units : list N) (eb : enc) (bunits : list N)   (* url(str, str_base) *)
| XFromFile (i : nat) (posix : bool) (e : enc) (units : list N).              (* url_from_file_path *)

Definition xstep (idna : list N -> option (list N)) (ops : parser_ops) (st : store) (x : xhop) : store :=
  match x with
  | XHop h => hstep ops st h
  | XParseSB i e units eb bunits =>
      (* a failing base leaves the target untouched *)
      match Spec.Api.do_parse ops eb bunits None with
      | Some b => store_step ops st (SParse i (Spec.Api.do_parse ops e units (Some (Some b))))
      | None => st
      end
  | XCtorSB i e units eb bunits =>
      match Spec.Api.do_parse ops eb bunits None with
      | Some b => match Spec.Api.do_parse ops e units (Some (Some b)) with
                  | Some u => store_step ops st (SCtor i u)
                  | None => st
                  end
      | None => st
      end
  | XFromFile i posix e units =>
      match url_from_file_path idna posix e units with
      | Some u => store_step ops st (SCtor i u)
      | None => st
      end
  end.

Lemma xstep_def idna ops st x :
  xstep idna ops st x =
  match x with
  | XHop h => hstep ops st h
  | XParseSB i e units eb bunits =>
      match Spec.Api.do_parse ops eb bunits None with
      | Some b => set_slot st i (slot_after_parse (get_slot st i) (Spec.Api.do_parse ops e units (Some (Some b))))
      | None => st
      end
  | XCtorSB i e units eb bunits =>
      match Spec.Api.do_parse ops eb bunits None with
      | Some b => match Spec.Api.do_parse ops e units (Some (Some b)) with
                  | Some u => set_slot st i (mk_slot (Some u) false [])
                  | None => st
                  end
      | None => st
      end
  | XFromFile i posix e units =>
      match url_from_file_path idna posix e units with
      | Some u => set_slot st i (mk_slot (Some u) false [])
      | None => st
      end
  end.
Proof. destruct x; reflexivity. Qed.

Definition wf_xhop (x : xhop) : Prop :=
  match x with
  | XHop h => wf_hop h
  | XParseSB _ e units eb bunits | XCtorSB _ e units eb bunits => units_ok e units /\ units_ok eb bunits
  | XFromFile _ _ e units => units_ok e units
  end.

Lemma Forall_skipn {A} (P : A -> Prop) : forall k l, Forall P l -> Forall P (skipn k l).
Proof.
  induction k as [|k IH]; intros l H; [exact H|]. destruct l as [|x l]; [exact H|].
  cbn [skipn]. apply IH. inversion H; assumption.
Qed.

Section XHistory.
Variable idna : list N -> option (list N).
Hypothesis HA : Properties_C07.H_ascii idna.
Hypothesis HK : Properties_C07.H_keep idna.
Hypothesis HL : Properties_C08.idna_ascii_lower idna.
Hypothesis HI : idna_idem idna.

Notation slot_c := (slot_c idna).
Notation opt_c := (opt_c idna).

(* ------------------------------------------------------------------------------------------ *)
(* 2. the object made from a file path is canonical                                            *)
(* ------------------------------------------------------------------------------------------ *)
Lemma pe_cps set s : cps_ok s -> cps_ok (utf8_percent_encode set s).
Proof.
  intro Hs. apply pe_Forall; [|exact Hs|].
  - split; [unfold cp_ok; lia|]. intros c [H|H]; unfold cp_ok; lia.
  - revert Hs. apply Forall_impl. intros c Hc _. exact Hc.
Qed.

Lemma file_url_text_cps posix s : cps_ok s -> cps_ok (file_url_text posix s).
Proof.
  intro Hs. unfold file_url_text.
  assert (Hp : cps_ok file_prefix) by (apply cps_ok_check; vm_compute; reflexivity).
  destruct posix.
  - apply Forall_app. split; [exact Hp|apply pe_cps, Hs].
  - destruct (win_prefix_skipn s) as [k Hk]. destruct (win_prefix s) as [rest is_unc]. cbn [fst] in Hk. subst rest.
    apply Forall_app. split; [exact Hp|]. apply Forall_app. split.
    + destruct is_unc; [constructor|]. constructor; [unfold cp_ok; lia|constructor].
    + apply pe_cps. apply Forall_skipn, Hs.
Qed.

Lemma from_file_c posix e units u : units_ok e units ->
  url_from_file_path idna posix e units = Some u -> Canon2w idna u.
Proof.
  intros Hu. rewrite from_unfold. cbv zeta.
  destruct (reject_conditions posix (decode_units e units)); [discriminate|].
  destruct (basic_parse idna (file_url_text posix (decode_units e units)) None) as [u'| |] eqn:E; try discriminate.
  intro H. injection H as <-.
  apply (parse_canon2w idna HL HI (file_url_text posix (decode_units e units)) None); [|left; reflexivity|exact E].
  apply file_url_text_cps. exact (decode_units_cps e units Hu).
Qed.

(* ------------------------------------------------------------------------------------------ *)
(* 3. one step                                                                                 *)
(* ------------------------------------------------------------------------------------------ *)
Lemma do_parse_none_c e units : units_ok e units -> opt_c (Spec.Api.do_parse (spec_ops idna) e units None).
Proof. intro Hu. apply (do_parse_c idna HL HI); [exact Hu|discriminate]. Qed.

Lemma do_parse_some_c e units b : units_ok e units -> Canon2w idna b ->
  opt_c (Spec.Api.do_parse (spec_ops idna) e units (Some (Some b))).
Proof. intros Hu Hb. apply (do_parse_c idna HL HI); [exact Hu|]. intros b' E. injection E as <-. exact Hb. Qed.

Lemma xstep_ops_eq st x : Forall slot_c st -> xstep idna (impl_ops idna) st x = xstep idna (spec_ops idna) st x.
Proof.
  intro Hst. destruct x; cbn [xstep].
  - apply (hstep_ops_eq idna HA HK), Hst.
  - rewrite !(do_parse_ops_eq idna HA HK). destruct (Spec.Api.do_parse (spec_ops idna) eb bunits None); [|reflexivity].
    rewrite (do_parse_ops_eq idna HA HK). reflexivity.
  - rewrite !(do_parse_ops_eq idna HA HK). destruct (Spec.Api.do_parse (spec_ops idna) eb bunits None); [|reflexivity].
    rewrite (do_parse_ops_eq idna HA HK). reflexivity.
  - reflexivity.
Qed.

Lemma xstep_inv st x : Inv idna st -> wf_xhop x -> Inv idna (xstep idna (spec_ops idna) st x).
Proof.
  intros Hst Hw. pose proof Hst as [Hok Hc].
  assert (Hs : forall o, wf_sop o -> sop_c idna o -> Inv idna (store_step (spec_ops idna) st o)).
  { intros o H1 H2. split; [apply (store_step_ok _ (spec_ops_keep_query idna)); assumption|].
    apply (store_step_c idna HL HI); assumption. }
  destruct x; cbn [xstep wf_xhop] in *.
  - apply (hstep_inv idna HL HI); assumption.
  - destruct Hw as [Hu Hbu].
    destruct (Spec.Api.do_parse (spec_ops idna) eb bunits None) as [b|] eqn:Eb; [|exact Hst].
    apply Hs; [exact I|]. cbn [sop_c]. apply do_parse_some_c; [exact Hu|]. exact (do_parse_none_c eb bunits Hbu b Eb).
  - destruct Hw as [Hu Hbu].
    destruct (Spec.Api.do_parse (spec_ops idna) eb bunits None) as [b|] eqn:Eb; [|exact Hst].
    destruct (Spec.Api.do_parse (spec_ops idna) e units (Some (Some b))) as [u|] eqn:Eu; [|exact Hst].
    apply Hs; [exact I|]. cbn [sop_c]. apply (do_parse_some_c e units b Hu); [|exact Eu].
    exact (do_parse_none_c eb bunits Hbu b Eb).
  - destruct (url_from_file_path idna posix e units) as [u|] eqn:Eu; [|exact Hst].
    apply Hs; [exact I|]. cbn [sop_c]. exact (from_file_c posix e units u Hw Eu).
Qed.

Lemma xhistory_inv : forall xs st, Inv idna st -> Forall wf_xhop xs ->
  fold_left (xstep idna (impl_ops idna)) xs st = fold_left (xstep idna (spec_ops idna)) xs st /\
  Inv idna (fold_left (xstep idna (spec_ops idna)) xs st).
Proof.
  induction xs as [|x xs IH]; intros st Hst Hw; cbn [fold_left]; [split; [reflexivity|exact Hst]|].
  inversion Hw as [|? ? Hx Hw']; subst.
  rewrite (xstep_ops_eq st x (proj2 Hst)). apply IH; [apply xstep_inv; assumption|exact Hw'].
Qed.

Theorem xhistory : forall xs, Forall wf_xhop xs ->
  let st := fold_left (xstep idna (impl_ops idna)) xs init_store in
  st = fold_left (xstep idna (spec_ops idna)) xs init_store
  /\ Forall slot_ok st
  /\ (forall i u, s_url (get_slot st i) = Some u -> Canon2w idna u)
  /\ (forall i u, s_url (get_slot st i) = Some u -> ~ FileQuirk u ->
        forall base, Impl.Parser.do_parse idna true (serialize u false) base = POk u).
Proof.
  intros xs Hw st. destruct (xhistory_inv xs init_store (Inv_init idna) Hw) as [E [Hok Hc]].
  fold st in E. rewrite <- E in Hok, Hc.
  split; [exact E|]. split; [exact Hok|].
  assert (H3 : forall i u, s_url (get_slot st i) = Some u -> Canon2w idna u).
  { intros i u Hu. exact (get_slot_c idna st i Hc u Hu). }
  split; [exact H3|].
  intros i u Hu Hq base. apply reparse. apply Canon2_of_w; [exact (H3 i u Hu)|exact Hq].
Qed.

End XHistory.

(* ------------------------------------------------------------------------------------------ *)
(* 4. every command of the interpreter is at most one [xstep]                                  *)
(* ------------------------------------------------------------------------------------------ *)
Lemma parse_arg_units' t a : parse_arg t = Some a -> units_ok (fst a) (snd a).
Proof.
  unfold parse_arg. destruct t as [|e rest]; [discriminate|].
  set (hex := match rest with 58 :: h => Some h | _ :: 58 :: h => Some h | _ => None end).
  destruct hex as [h|]; [|discriminate].
  destruct (e =? 104) eqn:E1.
  - destruct (hex_units 4 h (S (length h))) as [u|] eqn:Eu; [|discriminate]. intro H; inversion H; subst.
    cbn [fst snd units_ok]. exact (hex_units_bound 4 _ _ _ Eu).
  - destruct ((e =? 119) || (e =? 87)).
    + destruct (hex_units 8 h (S (length h))) as [u|]; [|discriminate]. intro H; inversion H; subst. exact I.
    + destruct (hex_units 2 h (S (length h))) as [u|]; [|discriminate]. intro H; inversion H; subst. exact I.
Qed.

Lemma parse_arg_units t e units : parse_arg t = Some (e, units) -> units_ok e units.
Proof. intro H. exact (parse_arg_units' t (e, units) H). Qed.

Section ExecLink.
Variable idna : list N -> option (list N).
Variable ops : parser_ops.

Definition xsim (ps ps' : pstate_) : Prop :=
  exists xs, (length xs <= 1)%nat /\ Forall wf_xhop xs /\ ps_store ps' = fold_left (xstep idna ops) xs (ps_store ps).

Ltac head_destruct_x :=
  match goal with
  | |- xsim _ (fst (if ?c then _ else _)) => destruct c eqn:?
  | |- xsim _ (fst (match ?x with _ => _ end)) => destruct x eqn:?
  end.

Ltac wf_units :=
  first [ exact I
        | match goal with H : parse_arg _ = Some (?e, ?u) |- units_ok ?e ?u => exact (parse_arg_units _ _ _ H) end
        | match goal with H : parse_arg _ = Some ?a |- units_ok (fst ?a) (snd ?a) => exact (parse_arg_units' _ _ H) end ].

Ltac one_x x := exists (cons x nil); split; [exact (le_n 1)|]; split; [constructor; [cbn [wf_xhop wf_hop]|constructor]|].

Lemma exec_xsim ps toks : ps_ok ps -> xsim ps (fst (exec idna ops ps toks)).
Proof.
  intro Hps. unfold exec. cbv zeta.
  repeat head_destruct_x; cbn [fst].
  all: try (exists nil; split; [exact (le_S 0 0 (le_n 0))|]; split; [constructor|reflexivity]).
  - (* parse *)
    match goal with |- xsim _ (put _ ?i (slot_after_parse _ (Spec.Api.do_parse _ ?e ?u match slot_of ?tb with _ => _ end))) =>
      one_x (XHop (HParse i e u (slot_of tb))) end; [wf_units|reflexivity].
  - (* ctor *)
    match goal with H : Spec.Api.do_parse _ ?e ?u match slot_of ?tb with _ => _ end = Some ?r |- xsim _ (put _ ?i _) =>
      one_x (XHop (HCtor i e u (slot_of tb))); [wf_units|];
      cbn [fold_left xstep]; rewrite (hstep_ctor_ok ops _ i e u (slot_of tb) r H); reflexivity end.
  - (* parse_sb *)
    match goal with Hb : Spec.Api.do_parse _ ?eb ?ub None = Some ?b
                    |- xsim _ (put _ ?i (slot_after_parse _ (Spec.Api.do_parse _ ?e ?u _))) =>
      one_x (XParseSB i e u eb ub); [split; wf_units|]; cbn [fold_left xstep]; rewrite Hb; reflexivity end.
  - (* ctor_sb *)
    match goal with H : match Spec.Api.do_parse _ ?eb ?ub None with _ => _ end = Some ?r |- xsim _ (put _ ?i _) =>
      match type of H with context [Spec.Api.do_parse _ ?e ?u (Some _)] =>
        one_x (XCtorSB i e u eb ub); [split; wf_units|]; cbn [fold_left xstep];
        destruct (Spec.Api.do_parse ops eb ub None); [rewrite H; reflexivity|discriminate H] end end.
  - (* set *)
    match goal with |- xsim _ (put _ ?i (slot_set _ _ ?w ?e ?u)) => one_x (XHop (HSet i w e u)) end; [wf_units|reflexivity].
  - (* clear *)
    match goal with |- xsim _ (put _ ?i (slot_clear _)) => one_x (XHop (HClear i)) end; [exact I|reflexivity].
  - (* copy copyctor move movector safe_assign swap *)
    match goal with
    | H : pair_op ?o _ _ = _, Hc : (?d =? ?s)%nat && negb ?b = false |- xsim _ (put (put _ ?d _) ?s _) =>
        one_x (XHop (HPair o d s)); [exact I|];
        cbn [fold_left xstep ps_store put]; unfold hstep; cbn [to_sop]; unfold store_step; rewrite H;
        destruct b; [cbn [is_copy_assign negb]; rewrite Bool.andb_false_r; reflexivity|];
        cbn [negb] in Hc; rewrite Bool.andb_true_r in Hc; rewrite Hc; reflexivity
    end.
  - (* reparse *)
    match goal with |- xsim _ (put _ ?i (slot_after_parse _ (Spec.Api.do_parse _ ?e ?u match slot_of ?tb with _ => _ end))) =>
      one_x (XHop (HParse i e u (slot_of tb))) end; [exact I|reflexivity].
  - (* sp *)
    match goal with |- xsim _ (put _ ?i (slot_sp_create _)) => one_x (XHop (HSpCreate i)) end; [exact I|reflexivity].
  - (* sp_<op> on an invalid object *)
    match goal with |- xsim _ (put _ ?i (slot_sp_create _)) => one_x (XHop (HSpCreate i)) end; [exact I|reflexivity].
  - (* sp_snapshot *)
    match goal with |- xsim _ (mk_ps (set_slot _ ?i (slot_sp_create _)) _) => one_x (XHop (HSpCreate i)) end; [exact I|reflexivity].
  - (* sp_<op> *)
    match goal with
    | H : slot_sp_apply _ ?op = _, Hn : is_none _ = false |- xsim _ (put _ ?i _) =>
        one_x (XHop (HSpOp i op)); [eapply op_choice_wf; [exact Hps|eassumption]|];
        cbn [fold_left xstep ps_store put]; unfold hstep; cbn [to_sop]; unfold store_step; cbv zeta; rewrite Hn, H; reflexivity
    end.
  - (* fromfile *)
    match goal with H : url_from_file_path _ ?px (fst ?a) (snd ?a) = Some ?r |- xsim _ (put _ ?i _) =>
      one_x (XFromFile i px (fst a) (snd a)); [wf_units|]; cbn [fold_left xstep]; rewrite H; reflexivity end.
  - (* reset *)
    one_x (XHop HReset); [exact I|reflexivity].
Qed.

End ExecLink.

(* ------------------------------------------------------------------------------------------ *)
(* 5. all runs of the protocol                                                                 *)
(* ------------------------------------------------------------------------------------------ *)
Section Runs.
Variable idna : list N -> option (list N).
Hypothesis HA : Properties_C07.H_ascii idna.
Hypothesis HK : Properties_C07.H_keep idna.
Hypothesis HL : Properties_C08.idna_ascii_lower idna.
Hypothesis HI : idna_idem idna.

(* the state of the interpreter (store and detached query objects) does not depend on which of
   the two parsers it runs *)
Lemma exec_ops_eq ps toks : Forall (slot_c idna) (ps_store ps) ->
  fst (exec idna (impl_ops idna) ps toks) = fst (exec idna (spec_ops idna) ps toks).
Proof.
  intro Hc. unfold exec. cbv zeta.
  repeat (rewrite ?(do_parse_ops_eq idna HA HK);
    match goal with
    | |- fst (if ?c then _ else _) = _ => destruct c
    | |- fst (match ?x with _ => _ end) = _ => destruct x
    end); cbn [fst]; rewrite ?(do_parse_ops_eq idna HA HK); try reflexivity.
  rewrite (slot_set_ops_eq idna HA HK); [reflexivity|apply get_slot_c, Hc].
Qed.

Definition ps_inv (ps : pstate_) : Prop := ps_ok ps /\ Forall (slot_c idna) (ps_store ps).

Lemma init_ps_inv : ps_inv init_ps.
Proof. split; [exact init_ps_ok|exact (init_store_c idna)]. Qed.

Lemma exec_inv ps toks : ps_inv ps -> ps_inv (fst (exec idna (spec_ops idna) ps toks)).
Proof.
  intros [Hok Hc]. split; [exact (exec_ok idna (spec_ops idna) (spec_ops_keep_query idna) ps toks Hok)|].
  destruct (exec_xsim idna (spec_ops idna) ps toks Hok) as (xs & _ & Hw & E). rewrite E.
  exact (proj2 (proj2 (xhistory_inv idna HA HK HL HI xs (ps_store ps) (conj (proj1 Hok) Hc) Hw))).
Qed.

Lemma run_lines_inv : forall lines ps, ps_inv ps ->
  run_lines idna (impl_ops idna) lines ps = run_lines idna (spec_ops idna) lines ps /\
  ps_inv (run_lines idna (spec_ops idna) lines ps).
Proof.
  unfold run_lines. induction lines as [|l r IH]; intros ps H; cbn [fold_left]; [split; [reflexivity|exact H]|].
  unfold run_line at 2 4. rewrite (exec_ops_eq ps (split_spaces l) (proj2 H)).
  apply IH. apply exec_inv, H.
Qed.

(* C05 over every run of the protocol from its initial state: the interpreter run with the model
   of the C++ parser is in the state the interpreter run with the Standard's parser is in, and
   every valid object is canonical and reparsed to itself *)
Theorem protocol_runs : forall lines,
  let ps := run_lines idna (impl_ops idna) lines init_ps in
  ps = run_lines idna (spec_ops idna) lines init_ps
  /\ Forall slot_ok (ps_store ps)
  /\ (forall i u, s_url (get_slot (ps_store ps) i) = Some u -> Canon2w idna u)
  /\ (forall i u, s_url (get_slot (ps_store ps) i) = Some u -> ~ FileQuirk u ->
        forall base, Impl.Parser.do_parse idna true (serialize u false) base = POk u).
Proof.
  intros lines ps. destruct (run_lines_inv lines init_ps init_ps_inv) as [E [Hok Hc]].
  fold ps in E. rewrite <- E in Hok, Hc.
  split; [exact E|]. split; [exact (proj1 Hok)|].
  assert (H3 : forall i u, s_url (get_slot (ps_store ps) i) = Some u -> Canon2w idna u).
  { intros i u Hu. exact (get_slot_c idna _ i Hc u Hu). }
  split; [exact H3|].
  intros i u Hu Hq base. apply reparse. apply Canon2_of_w; [exact (H3 i u Hu)|exact Hq].
Qed.

End Runs.
