(* C07 — the host parser's pre-check and ASCII fast path in front of ICU equal the Standard's
   host parser (full processing).  UTS #46 is trusted only through the named laws below,
   which are ordinary propositions about the function [idna] and appear as premises. *)
From Upa Require Import Base.Prelude Spec.CodePoints Spec.Utf Spec.Percent Spec.Ip Spec.Url
  Impl.Tables Impl.Parser Proofs.TableLemmas Proofs.TablesInst Proofs.UtfFacts Proofs.PercentProofs.
From Upa Require Properties_C13.
From Coq Require Import ZifyBool ZifyN ZifyNat.
Local Open Scope N_scope.

(* ---------- table classes are the Standard's sets ---------- *)

Lemma tbl_forbidden_host_spec c : tbl_is_forbidden_host_char c = forbidden_host c.
Proof. exact (forbidden_host_class _ Properties_C13.C13_cpp11 c). Qed.

Lemma tbl_ascii_domain_spec c : tbl_is_ascii_domain_char c = ascii_domain_char c.
Proof. exact (ascii_domain_class _ Properties_C13.C13_cpp11 c). Qed.

Lemma existsb_ext_all {A} (f g : A -> bool) l : (forall x, f x = g x) -> existsb f l = existsb g l.
Proof. intro H. induction l as [|x l IH]; cbn [existsb]; [reflexivity|]. rewrite H, IH. reflexivity. Qed.

Lemma take_while_ext p q s : (forall x, p x = q x) -> take_while p s = take_while q s.
Proof. intro H. induction s as [|x s IH]; cbn [take_while]; [reflexivity|]. rewrite H, IH. reflexivity. Qed.

Lemma drop_while_ext p q s : (forall x, p x = q x) -> drop_while p s = drop_while q s.
Proof. intro H. induction s as [|x s IH]; cbn [drop_while]; [reflexivity|]. rewrite H, IH. reflexivity. Qed.

(* ---------- 1. opaque hosts ---------- *)

Lemma enc_c0_cp c :
  (if 127 <=? c then flat_map percent_encode_byte (utf8_encode_cp c)
   else if c <=? 31 then percent_encode_byte c else [c]) = utf8_percent_encode_cp c0_control_encode c.
Proof.
  unfold utf8_percent_encode_cp, c0_control_encode, is_c0_control.
  destruct (N.leb_spec 127 c) as [H|H].
  - replace ((c <=? 31) || (126 <? c)) with true by lia. reflexivity.
  - destruct (N.leb_spec c 31) as [H1|H1].
    + replace (true || (126 <? c)) with true by reflexivity.
      rewrite utf8_encode_cp_ascii by lia. cbn [flat_map]. rewrite app_nil_r. reflexivity.
    + replace (false || (126 <? c)) with false by lia. reflexivity.
Qed.

Lemma enc_c0_spec s : enc_c0 s = utf8_percent_encode c0_control_encode s.
Proof. unfold enc_c0, utf8_percent_encode. apply flat_map_ext_all. exact enc_c0_cp. Qed.

(* the Standard's case split on a leading '[' as a boolean test *)
Lemma host_parse_cons idna c rest b :
  host_parse idna (c :: rest) b =
  if c =? 91 then
    match last_opt (c :: rest) with
    | Some 93 => match Spec.Ip.ipv6_parse (removelast rest) with Some a => Some (HIpv6 a) | None => None end
    | _ => None
    end
  else if b then opaque_host_parse (c :: rest)
  else
    let domain := utf8_decode (percent_decode (utf8_encode (c :: rest))) in
    match domain_to_ascii idna domain with
    | None => None
    | Some ascii =>
        if existsb forbidden_domain ascii then None
        else if ends_in_number ascii then
          match Spec.Ip.ipv4_parse ascii with Some a => Some (HIpv4 a) | None => None end
        else Some (HDomain ascii)
    end.
Proof.
  destruct (N.eqb_spec c 91) as [->|Hne]; [reflexivity|].
  unfold host_parse.
  destruct c as [|p]; [reflexivity|].
  destruct p as [p|p|]; try reflexivity. destruct p as [p|p|]; try reflexivity.
  destruct p as [p|p|]; try reflexivity. destruct p as [p|p|]; try reflexivity.
  destruct p as [p|p|]; try reflexivity. destruct p as [p|p|]; try reflexivity.
  destruct p as [p|p|]; try reflexivity. contradiction Hne; reflexivity.
Qed.

Lemma host_parse_nil idna b :
  host_parse idna [] b =
  if b then Some HEmpty
  else match domain_to_ascii idna [] with
       | None => None
       | Some ascii =>
           if existsb forbidden_domain ascii then None
           else if ends_in_number ascii then
             match Spec.Ip.ipv4_parse ascii with Some a => Some (HIpv4 a) | None => None end
           else Some (HDomain ascii)
       end.
Proof. destruct b; reflexivity. Qed.

Lemma opaque_eq idna input : impl_parse_host idna input true = host_parse idna input true.
Proof.
  destruct input as [|c rest]; [reflexivity|].
  rewrite host_parse_cons. cbn [impl_parse_host].
  destruct (c =? 91); [reflexivity|].
  unfold opaque_host_parse.
  rewrite (existsb_ext_all _ _ (c :: rest) tbl_forbidden_host_spec), enc_c0_spec. reflexivity.
Qed.

(* ---------- 2. bracketed IPv6 ---------- *)

Lemma ipv6_eq idna rest b : impl_parse_host idna (91 :: rest) b = host_parse idna (91 :: rest) b.
Proof. rewrite host_parse_cons. reflexivity. Qed.

(* ---------- 3. the ASCII fast path ---------- *)

(* util::has_xn_label, exactly the [has_xn] expression of [impl_parse_host] *)
Definition has_xn_label (input : str) : bool :=
  existsb (fun lbl => match lbl with
                      | x :: n :: d1 :: d2 :: _ => (N.lor x 32 =? 120) && (N.lor n 32 =? 110) && (d1 =? 45) && (d2 =? 45)
                      | _ => false end) (split_on 46 input).

Definition ascii_domain_str (s : str) : Prop := Forall (fun c => ascii_domain_char c = true) s.

Lemma ascii_domain_char_facts c : ascii_domain_char c = true -> c < 128 /\ c <> 37 /\ forbidden_domain c = false.
Proof.
  unfold ascii_domain_char. intro H. apply andb_prop in H. destruct H as [H1 H2].
  apply negb_true_iff in H2. split; [lia|]. split; [|exact H2].
  intros ->. vm_compute in H2. discriminate.
Qed.

Lemma not_ascii_domain_forbidden c : c < 128 -> ascii_domain_char c = false -> forbidden_domain c = true.
Proof.
  unfold ascii_domain_char. intros H1 H2. destruct (forbidden_domain c); [reflexivity|].
  exfalso. replace (c <? 128) with true in H2 by lia. discriminate.
Qed.

Lemma take_drop_while p s : take_while p s ++ drop_while p s = s.
Proof. induction s as [|x s IH]; [reflexivity|]. cbn [take_while drop_while]. destruct (p x); [cbn; rewrite IH|]; reflexivity. Qed.

Lemma take_while_Forall p s : Forall (fun c => p c = true) (take_while p s).
Proof. induction s as [|x s IH]; cbn [take_while]; [constructor|]. destruct (p x) eqn:E; constructor; assumption. Qed.

Lemma drop_while_head p s t0 t1 : drop_while p s = t0 :: t1 -> p t0 = false.
Proof.
  induction s as [|x s IH]; cbn [drop_while]; [discriminate|].
  destruct (p x) eqn:E; [exact IH|]. intro H. inversion H. subst. exact E.
Qed.

Lemma drop_while_nil_Forall p s : drop_while p s = [] -> Forall (fun c => p c = true) s.
Proof.
  intro H. rewrite <- (take_drop_while p s), H, app_nil_r. apply take_while_Forall.
Qed.

Lemma Forall_drop_while_nil p s : Forall (fun c => p c = true) s -> drop_while p s = [].
Proof. induction 1 as [|x s Hx _ IH]; [reflexivity|]. cbn [drop_while]. rewrite Hx. exact IH. Qed.

(* the Standard's "domain" of an input: percent-decode of the UTF-8 encoding, UTF-8 decoded *)
Definition domain_of (input : str) : list N := utf8_decode (percent_decode (utf8_encode input)).

Lemma domain_of_nil : domain_of [] = [].
Proof. reflexivity. Qed.

Lemma domain_of_ascii_cons c s : c < 128 -> c <> 37 -> domain_of (c :: s) = c :: domain_of s.
Proof.
  intros H1 H2. unfold domain_of. rewrite utf8_encode_cons, utf8_encode_cp_ascii by exact H1.
  cbn [app]. rewrite P_ne by exact H2. apply utf8_decode_ascii_cons. exact H1.
Qed.

Lemma domain_of_ascii_domain s : ascii_domain_str s -> domain_of s = s.
Proof.
  induction 1 as [|c s Hc _ IH]; [reflexivity|].
  destruct (ascii_domain_char_facts c Hc) as (H1 & H2 & _).
  rewrite domain_of_ascii_cons, IH by assumption. reflexivity.
Qed.

(* ASCII lowercasing keeps ASCII domain characters inside the class *)
Lemma lower_not_forbidden c : ascii_domain_char c = true -> forbidden_domain (ascii_lower c) = false.
Proof.
  intro H. destruct (ascii_domain_char_facts c H) as (H1 & _ & _).
  assert (S : sweep256 (fun c => negb (ascii_domain_char c) || negb (forbidden_domain (ascii_lower c))) = true)
    by (vm_compute; reflexivity).
  pose proof (sweep256_sound _ S c ltac:(lia)) as Hs. cbv beta in Hs.
  rewrite H in Hs. cbn [negb orb] in Hs. apply negb_true_iff in Hs. exact Hs.
Qed.

Lemma lower_str_not_forbidden s : ascii_domain_str s -> existsb forbidden_domain (lower_str s) = false.
Proof.
  induction 1 as [|c s Hc _ IH]; [reflexivity|].
  cbn [lower_str map existsb]. rewrite (lower_not_forbidden c Hc). exact IH.
Qed.

(* ----- the IPv4 parser and the ends-in-a-number checker ignore ASCII case ----- *)

Lemma lower_eqb_46 c : (ascii_lower c =? 46) = (c =? 46).
Proof. unfold ascii_lower, is_ascii_upper_alpha. destruct ((65 <=? c) && (c <=? 90)) eqn:E; lia. Qed.
Lemma lower_eqb_48 c : (ascii_lower c =? 48) = (c =? 48).
Proof. unfold ascii_lower, is_ascii_upper_alpha. destruct ((65 <=? c) && (c <=? 90)) eqn:E; lia. Qed.
Lemma lower_is_x c : (ascii_lower c =? 120) || (ascii_lower c =? 88) = (c =? 120) || (c =? 88).
Proof. unfold ascii_lower, is_ascii_upper_alpha. destruct ((65 <=? c) && (c <=? 90)) eqn:E; lia. Qed.
Lemma lower_is_digit c : is_ascii_digit (ascii_lower c) = is_ascii_digit c.
Proof. unfold ascii_lower, is_ascii_upper_alpha, is_ascii_digit. destruct ((65 <=? c) && (c <=? 90)) eqn:E; lia. Qed.
Lemma lower_is_hex c : is_ascii_hex (ascii_lower c) = is_ascii_hex c.
Proof.
  unfold ascii_lower, is_ascii_upper_alpha, is_ascii_hex, is_ascii_upper_hex, is_ascii_lower_hex, is_ascii_digit.
  destruct ((65 <=? c) && (c <=? 90)) eqn:E; lia.
Qed.
Lemma lower_is_octal c : (48 <=? ascii_lower c) && (ascii_lower c <=? 55) = (48 <=? c) && (c <=? 55).
Proof. unfold ascii_lower, is_ascii_upper_alpha. destruct ((65 <=? c) && (c <=? 90)) eqn:E; lia. Qed.
Lemma lower_hex_val c : is_ascii_hex c = true -> hex_val (ascii_lower c) = hex_val c.
Proof.
  unfold ascii_lower, is_ascii_upper_alpha, is_ascii_hex, is_ascii_upper_hex, is_ascii_lower_hex, hex_val, is_ascii_digit.
  intro H. destruct ((65 <=? c) && (c <=? 90)) eqn:E; [|reflexivity].
  destruct ((48 <=? c + 32) && (c + 32 <=? 57)) eqn:E1; [lia|].
  destruct ((65 <=? c + 32) && (c + 32 <=? 70)) eqn:E2; [lia|].
  destruct ((48 <=? c) && (c <=? 57)) eqn:E3; [lia|].
  destruct ((65 <=? c) && (c <=? 70)) eqn:E4; lia.
Qed.

Lemma lower_radix_digit r c : radix_digit r (ascii_lower c) = radix_digit r c.
Proof.
  unfold radix_digit. destruct (r =? 16); [apply lower_is_hex|].
  destruct (r =? 10); [apply lower_is_digit|apply lower_is_octal].
Qed.

Lemma radix_digit_hex r c : radix_digit r c = true -> is_ascii_hex c = true.
Proof.
  unfold radix_digit, is_ascii_hex, is_ascii_upper_hex, is_ascii_lower_hex, is_ascii_digit.
  destruct (r =? 16); [tauto|]. destruct (r =? 10); lia.
Qed.

Lemma lower_forallb_radix r l : forallb (radix_digit r) (lower_str l) = forallb (radix_digit r) l.
Proof.
  induction l as [|c l IH]; [reflexivity|]. cbn [lower_str map forallb].
  rewrite lower_radix_digit. f_equal. exact IH.
Qed.

Lemma lower_digits_val r l : forallb (radix_digit r) l = true -> digits_val r (lower_str l) = digits_val r l.
Proof.
  unfold digits_val. generalize 0 as acc. induction l as [|c l IH]; intros acc H; [reflexivity|].
  cbn [forallb] in H. apply andb_prop in H. destruct H as [Hc Hl].
  cbn [lower_str map fold_left]. rewrite (lower_hex_val c (radix_digit_hex r c Hc)).
  apply (IH _ Hl).
Qed.

(* the IPv4 number parser in equational form (tests instead of numeral patterns) *)
Definition ipv4_number_tail (input : str) (r : N) : option N :=
  match input with
  | [] => Some 0
  | _ => if forallb (radix_digit r) input then Some (digits_val r input) else None
  end.

Lemma ipv4_number_eq input :
  ipv4_number input =
  match input with
  | [] => None
  | c :: l =>
      if c =? 48 then
        match l with
        | x :: rest => if (x =? 120) || (x =? 88) then ipv4_number_tail rest 16 else ipv4_number_tail (x :: rest) 8
        | [] => ipv4_number_tail input 10
        end
      else ipv4_number_tail input 10
  end.
Proof.
  destruct input as [|c l]; [reflexivity|].
  destruct (N.eqb_spec c 48) as [->|Hne].
  - destruct l as [|x rest]; [reflexivity|]. unfold ipv4_number.
    destruct ((x =? 120) || (x =? 88)); reflexivity.
  - unfold ipv4_number.
    destruct c as [|p]; [reflexivity|].
    destruct p as [p|p|]; try reflexivity. destruct p as [p|p|]; try reflexivity.
    destruct p as [p|p|]; try reflexivity. destruct p as [p|p|]; try reflexivity.
    destruct p as [p|p|]; try reflexivity. destruct p as [p|p|]; try reflexivity.
    contradiction Hne; reflexivity.
Qed.

Lemma lower_ipv4_number_tail l r : ipv4_number_tail (lower_str l) r = ipv4_number_tail l r.
Proof.
  destruct l as [|c l]; [reflexivity|].
  change (lower_str (c :: l)) with (ascii_lower c :: lower_str l) at 1.
  unfold ipv4_number_tail.
  change (ascii_lower c :: lower_str l) with (lower_str (c :: l)).
  rewrite lower_forallb_radix.
  destruct (forallb (radix_digit r) (c :: l)) eqn:E; [|reflexivity].
  rewrite (lower_digits_val r _ E). reflexivity.
Qed.

Lemma lower_ipv4_number l : ipv4_number (lower_str l) = ipv4_number l.
Proof.
  rewrite !ipv4_number_eq.
  destruct l as [|c l]; [reflexivity|].
  cbn [lower_str map]. rewrite lower_eqb_48.
  destruct (c =? 48).
  - destruct l as [|x rest].
    + apply (lower_ipv4_number_tail [c] 10).
    + cbn [map]. rewrite lower_is_x. destruct ((x =? 120) || (x =? 88)).
      * apply lower_ipv4_number_tail.
      * apply (lower_ipv4_number_tail (x :: rest) 8).
  - apply (lower_ipv4_number_tail (c :: l) 10).
Qed.

Lemma lower_forallb_digit l : forallb is_ascii_digit (lower_str l) = forallb is_ascii_digit l.
Proof.
  induction l as [|c l IH]; [reflexivity|]. cbn [lower_str map forallb].
  rewrite lower_is_digit. f_equal. exact IH.
Qed.

Lemma lower_str_eqb_nil l : str_eqb (lower_str l) [] = str_eqb l [].
Proof. destruct l; reflexivity. Qed.

Lemma split_on_lower s : split_on 46 (lower_str s) = map lower_str (split_on 46 s).
Proof.
  induction s as [|c s IH]; [reflexivity|].
  cbn [lower_str map split_on]. rewrite lower_eqb_46.
  destruct (c =? 46).
  - cbn [map]. f_equal. exact IH.
  - change (map ascii_lower s) with (lower_str s). rewrite IH.
    destruct (split_on 46 s) as [|p ps]; reflexivity.
Qed.

Lemma last_opt_map {A B} (f : A -> B) l : last_opt (map f l) = option_map f (last_opt l).
Proof.
  induction l as [|x l IH]; [reflexivity|].
  destruct l as [|y l]; [reflexivity|]. exact IH.
Qed.

Lemma removelast_map' {A B} (f : A -> B) l : removelast (map f l) = map f (removelast l).
Proof.
  induction l as [|x l IH]; [reflexivity|].
  destruct l as [|y l]; [reflexivity|]. cbn [map removelast] in *. f_equal. exact IH.
Qed.

Lemma lower_ends_in_number s : ends_in_number (lower_str s) = ends_in_number s.
Proof.
  unfold ends_in_number. rewrite split_on_lower.
  generalize (split_on 46 s) as parts. intro parts.
  rewrite last_opt_map, map_length.
  assert (K : forall ps : list str,
    match last_opt (map lower_str ps) with
    | None => false
    | Some l => if negb (str_eqb l []) && forallb is_ascii_digit l then true
                else if is_some (ipv4_number l) then true else false
    end =
    match last_opt ps with
    | None => false
    | Some l => if negb (str_eqb l []) && forallb is_ascii_digit l then true
                else if is_some (ipv4_number l) then true else false
    end).
  { intro ps. rewrite last_opt_map. destruct (last_opt ps) as [l|]; [|reflexivity].
    cbn [option_map]. rewrite lower_str_eqb_nil, lower_forallb_digit, lower_ipv4_number. reflexivity. }
  destruct (last_opt parts) as [[|c l]|]; cbn [option_map lower_str map].
  - destruct (length parts =? 1)%nat; [reflexivity|]. rewrite removelast_map'. apply K.
  - apply K.
  - apply K.
Qed.

Lemma map_opt_lower parts : map_opt ipv4_number (map lower_str parts) = map_opt ipv4_number parts.
Proof.
  induction parts as [|p ps IH]; [reflexivity|]. cbn [map map_opt]. rewrite lower_ipv4_number, IH. reflexivity.
Qed.

Lemma lower_ipv4_parse s : ipv4_parse (lower_str s) = ipv4_parse s.
Proof.
  unfold ipv4_parse. rewrite split_on_lower.
  generalize (split_on 46 s) as parts. intro parts.
  rewrite last_opt_map, map_length.
  assert (K : forall ps : list str,
    (if (4 <? length (map lower_str ps))%nat then None
     else match map_opt ipv4_number (map lower_str ps) with
          | None => None
          | Some numbers =>
            match last_opt numbers with
            | None => None
            | Some lastn =>
              let front := removelast numbers in
              if existsb (fun n => 255 <? n) front then None else
              if 256 ^ (5 - N.of_nat (length numbers)) <=? lastn then None else
              Some (lastn + ipv4_sum front 0)
            end
          end) =
    (if (4 <? length ps)%nat then None
     else match map_opt ipv4_number ps with
          | None => None
          | Some numbers =>
            match last_opt numbers with
            | None => None
            | Some lastn =>
              let front := removelast numbers in
              if existsb (fun n => 255 <? n) front then None else
              if 256 ^ (5 - N.of_nat (length numbers)) <=? lastn then None else
              Some (lastn + ipv4_sum front 0)
            end
          end)).
  { intro ps. rewrite map_length, map_opt_lower. reflexivity. }
  destruct (last_opt parts) as [[|c l]|]; cbn [option_map lower_str map].
  - destruct (1 <? length parts)%nat; [rewrite removelast_map'|]; apply K.
  - apply K.
  - apply K.
Qed.

(* ---------- the model of parse_host, unfolded for non-opaque, non-bracketed input ---------- *)

(* the early-reject condition of [impl_parse_host] (host_parser::parse_host's pre-check):
   the input is not bracketed, and the first unit that is not an ASCII domain character is
   ASCII and not '%' — unless it is '<' '=' '>' directly followed by a non-ASCII unit or '%' *)
Definition early_reject (input : str) : bool :=
  match input with
  | [] => false
  | c0 :: _ =>
    negb (c0 =? 91) &&
    match snd (span tbl_is_ascii_domain_char input) with
    | [] => false
    | t0 :: t1 =>
        (t0 <? 128) && negb (t0 =? 37) &&
        negb ((60 <=? t0) && (t0 <=? 62) && match t1 with x :: _ => (128 <=? x) || (x =? 37) | [] => false end)
    end
  end.

(* the fast-path condition: every unit is an ASCII domain character, no "xn--" label *)
Definition fast_path (input : str) : bool :=
  match snd (span tbl_is_ascii_domain_char input) with [] => negb (has_xn_label input) | _ => false end.

Definition fast_result (input : str) : option host :=
  if ends_in_number input then
    match Spec.Ip.ipv4_parse input with Some a => Some (HIpv4 a) | None => None end
  else Some (HDomain (lower_str input)).

Lemma impl_domain_cases idna c0 rest :
  (c0 =? 91) = false ->
  impl_parse_host idna (c0 :: rest) false =
  if early_reject (c0 :: rest) then None
  else if fast_path (c0 :: rest) then fast_result (c0 :: rest)
  else host_parse idna (c0 :: rest) false.
Proof.
  intro H91. unfold impl_parse_host, early_reject, fast_path, fast_result, span. rewrite H91.
  cbn [snd negb andb]. fold (has_xn_label (c0 :: rest)).
  destruct (drop_while tbl_is_ascii_domain_char (c0 :: rest)) as [|t0 t1].
  - destruct (has_xn_label (c0 :: rest)); reflexivity.
  - destruct ((t0 <? 128) && negb (t0 =? 37)); [|reflexivity]. cbn [andb].
    destruct ((60 <=? t0) && (t0 <=? 62) && match t1 with x :: _ => (128 <=? x) || (x =? 37) | [] => false end);
      reflexivity.
Qed.

Lemma fast_path_iff input :
  fast_path input = true <-> ascii_domain_str input /\ has_xn_label input = false.
Proof.
  unfold fast_path, span. cbn [snd].
  rewrite (drop_while_ext _ _ input tbl_ascii_domain_spec). split.
  - destruct (drop_while ascii_domain_char input) eqn:E; [|discriminate].
    intro H. split; [apply drop_while_nil_Forall in E; exact E|]. apply negb_true_iff in H. exact H.
  - intros [H1 H2]. rewrite (Forall_drop_while_nil _ _ H1), H2. reflexivity.
Qed.

(* ---------- the laws about UTS #46 ToASCII (premises, never axioms) ---------- *)

(* H_ascii: on a string of ASCII domain characters without an "xn--" label, ToASCII returns
   the ASCII-lowercased copy.  (ascii_domain_char excludes '%', so percent-decoding leaves
   such a string unchanged.) *)
Definition ascii_law (idna : list N -> option (list N)) : Prop :=
  forall s, Forall (fun c => ascii_domain_char c = true) s -> has_xn_label s = false ->
            idna s = Some (lower_str s).

(* H_keep, final formulation (the weakest one the proof needs).  It speaks about ONE
   OCCURRENCE of an ASCII forbidden domain code point c other than '%', namely the first
   code point of the domain that is not an ASCII domain character: if ToASCII succeeds, c is
   still in the output — except that '<' '=' '>' may be composed by NFC (with U+0338) when the
   code point DIRECTLY FOLLOWING THIS OCCURRENCE is non-ASCII.
   Why it holds for UTS #46 with UseSTD3ASCIIRules=false: the mapping step works code point by
   code point and leaves ASCII forbidden code points unchanged (valid / disallowed_STD3_valid);
   NFC changes an ASCII code point only by composing it with following combining marks; the
   only non-letter ASCII starters of a canonical composition are '<' '=' '>' (with U+0338),
   and every code point that can stand between them and the U+0338 (ignored code points
   removed by the mapping, combining marks) is non-ASCII, so an ASCII successor (or the end
   of the string) blocks the composition; Punycode copies basic code points literally.

   The formulation given in the task,
       forall d r c, idna d = Some r -> In c d -> ... ->
         (c = 60 \/ c = 61 \/ c = 62 -> ~ exists pre post x, d = pre ++ c :: x :: post /\ 128 <= x) -> In c r,
   quantifies the exception over ALL occurrences of c in d, and is therefore too weak: on
   "<a<" + U+0338 the pre-check rejects because of the first '<' (followed by 'a'), but the
   premise of that law fails because of the second '<' (followed by U+0338), so the law says
   nothing.  [keep_law_given_too_weak] below is a concrete idna satisfying H_ascii and that
   formulation for which the early reject is wrong.  The occurrence-wise statement without
   the restriction on [pre] is [keep_law_occ]; it implies both [keep_law] and the given one. *)
Definition keep_law (idna : list N -> option (list N)) : Prop :=
  forall pre c post r,
    Forall (fun a => ascii_domain_char a = true) pre ->
    c < 128 -> forbidden_domain c = true -> c <> 37 ->
    (60 <= c <= 62 -> match post with [] => True | x :: _ => x < 128 end) ->
    idna (pre ++ c :: post) = Some r -> In c r.

(* every occurrence, any prefix *)
Definition keep_law_occ (idna : list N -> option (list N)) : Prop :=
  forall pre c post r,
    c < 128 -> forbidden_domain c = true -> c <> 37 ->
    (60 <= c <= 62 -> match post with [] => True | x :: _ => x < 128 end) ->
    idna (pre ++ c :: post) = Some r -> In c r.

(* the formulation of the task statement *)
Definition keep_law_given (idna : list N -> option (list N)) : Prop :=
  forall d r c, idna d = Some r -> In c d -> c < 128 -> forbidden_domain c = true -> c <> 37 ->
    (c = 60 \/ c = 61 \/ c = 62 -> ~ exists pre post x, d = pre ++ c :: x :: post /\ 128 <= x) -> In c r.

Lemma keep_law_occ_keep idna : keep_law_occ idna -> keep_law idna.
Proof. intros H pre c post r _. apply H. Qed.

Lemma keep_law_occ_given idna : keep_law_occ idna -> keep_law_given idna.
Proof.
  intros H d r c Hr Hin Hc Hf H37 Hex.
  apply in_split in Hin. destruct Hin as (pre & post & ->).
  apply (H pre c post r Hc Hf H37); [|exact Hr].
  intro Hr3. destruct post as [|x post]; [exact I|].
  destruct (N.lt_ge_cases x 128) as [Hx|Hx]; [exact Hx|].
  exfalso. apply Hex; [lia|]. exists pre, post, x. split; [reflexivity|exact Hx].
Qed.

Section WithIdna.
Variable idna : list N -> option (list N).

(* ---------- 3. the fast path ---------- *)

Lemma fastpath_eq : ascii_law idna -> forall input,
  ascii_domain_str input -> has_xn_label input = false ->
  impl_parse_host idna input false = host_parse idna input false.
Proof.
  intros HA input Hads Hxn.
  pose proof (HA input Hads Hxn) as Hid.
  destruct input as [|c0 rest].
  - rewrite host_parse_nil. unfold domain_to_ascii. rewrite Hid. reflexivity.
  - assert (H91 : (c0 =? 91) = false).
    { inversion Hads as [|? ? Hc0 _]. subst.
      destruct (N.eqb_spec c0 91) as [->|]; [vm_compute in Hc0; discriminate|reflexivity]. }
    rewrite (impl_domain_cases idna c0 rest H91).
    assert (Hfp : fast_path (c0 :: rest) = true) by (apply fast_path_iff; split; assumption).
    assert (Her : early_reject (c0 :: rest) = false).
    { unfold early_reject. unfold fast_path in Hfp.
      destruct (snd (span tbl_is_ascii_domain_char (c0 :: rest))); [|discriminate].
      apply andb_false_r. }
    rewrite Her, Hfp. rewrite host_parse_cons, H91. cbv zeta.
    fold (domain_of (c0 :: rest)). rewrite (domain_of_ascii_domain _ Hads).
    unfold domain_to_ascii. rewrite Hid.
    change (lower_str (c0 :: rest)) with (ascii_lower c0 :: lower_str rest) at 1.
    cbv iota. change (ascii_lower c0 :: lower_str rest) with (lower_str (c0 :: rest)).
    rewrite (lower_str_not_forbidden _ Hads), lower_ends_in_number, lower_ipv4_parse.
    reflexivity.
Qed.

(* ---------- 4. the early reject is sound ---------- *)

Lemma domain_of_prefix pre t s : ascii_domain_str pre -> t < 128 -> t <> 37 ->
  domain_of (pre ++ t :: s) = pre ++ t :: domain_of s.
Proof.
  induction 1 as [|c pre Hc _ IH]; intros Ht H37.
  - apply domain_of_ascii_cons; assumption.
  - destruct (ascii_domain_char_facts c Hc) as (H1 & H2 & _).
    cbn [app]. rewrite domain_of_ascii_cons, IH by assumption. reflexivity.
Qed.

Lemma precheck_sound : keep_law idna -> forall input,
  early_reject input = true -> host_parse idna input false = None.
Proof.
  intros HK input Her.
  destruct input as [|c0 rest]; [discriminate|].
  unfold early_reject, span in Her. cbn [snd] in Her.
  apply andb_prop in Her. destruct Her as [H91 Her]. apply negb_true_iff in H91.
  rewrite host_parse_cons, H91. cbv zeta. fold (domain_of (c0 :: rest)).
  pose proof (take_drop_while tbl_is_ascii_domain_char (c0 :: rest)) as Hsplit.
  pose proof (take_while_Forall tbl_is_ascii_domain_char (c0 :: rest)) as Hpre.
  destruct (drop_while tbl_is_ascii_domain_char (c0 :: rest)) as [|t0 t1] eqn:Hdrop; [discriminate|].
  apply drop_while_head in Hdrop. rewrite tbl_ascii_domain_spec in Hdrop.
  set (pre := take_while tbl_is_ascii_domain_char (c0 :: rest)) in *.
  assert (Hads : ascii_domain_str pre).
  { unfold ascii_domain_str. eapply Forall_impl; [|exact Hpre]. intros a Ha. cbv beta in Ha.
    rewrite tbl_ascii_domain_spec in Ha. exact Ha. }
  apply andb_prop in Her. destruct Her as [Her Hcomp]. apply andb_prop in Her. destruct Her as [Ht Hn37].
  assert (Ht128 : t0 < 128) by lia.
  assert (Ht37 : t0 <> 37) by lia.
  pose proof (not_ascii_domain_forbidden t0 Ht128 Hdrop) as Hforb.
  rewrite <- Hsplit, (domain_of_prefix pre t0 t1 Hads Ht128 Ht37).
  unfold domain_to_ascii.
  destruct (idna (pre ++ t0 :: domain_of t1)) as [r|] eqn:Hid; [|reflexivity].
  assert (Hin : In t0 r).
  { apply (HK pre t0 (domain_of t1) r Hads Ht128 Hforb Ht37); [|exact Hid].
    intro Hr3. apply negb_true_iff in Hcomp.
    destruct t1 as [|x t1']; [exact I|].
    assert (Hx : x < 128 /\ x <> 37) by (clear - Hcomp Hr3; lia).
    destruct Hx as [Hx1 Hx2]. rewrite (domain_of_ascii_cons x t1' Hx1 Hx2). exact Hx1. }
  destruct r as [|r0 r']; [reflexivity|].
  assert (Hex : existsb forbidden_domain (r0 :: r') = true).
  { apply existsb_exists. exists t0. split; assumption. }
  rewrite Hex. reflexivity.
Qed.

(* ---------- 5. all cases ---------- *)

Lemma host_eq : ascii_law idna -> keep_law idna -> forall input is_opaque,
  impl_parse_host idna input is_opaque = host_parse idna input is_opaque.
Proof.
  intros HA HK input b.
  destruct b; [apply opaque_eq|].
  destruct input as [|c0 rest].
  - apply (fastpath_eq HA []); [constructor|reflexivity].
  - destruct (c0 =? 91) eqn:H91.
    + apply N.eqb_eq in H91. subst. apply ipv6_eq.
    + rewrite (impl_domain_cases idna c0 rest H91).
      destruct (early_reject (c0 :: rest)) eqn:Her.
      * symmetry. apply (precheck_sound HK _ Her).
      * destruct (fast_path (c0 :: rest)) eqn:Hfp; [|reflexivity].
        apply fast_path_iff in Hfp. destruct Hfp as [Hads Hxn].
        rewrite <- (fastpath_eq HA _ Hads Hxn).
        rewrite (impl_domain_cases idna c0 rest H91), Her.
        assert (Hfp : fast_path (c0 :: rest) = true) by (apply fast_path_iff; split; assumption).
        rewrite Hfp. reflexivity.
Qed.

(* what the model does when the early reject fires *)
Lemma impl_early_reject input : early_reject input = true -> impl_parse_host idna input false = None.
Proof.
  intro Her. destruct input as [|c0 rest]; [discriminate|].
  assert (H91 : (c0 =? 91) = false).
  { unfold early_reject in Her. apply andb_prop in Her. destruct Her as [H _]. apply negb_true_iff in H. exact H. }
  rewrite (impl_domain_cases idna c0 rest H91), Her. reflexivity.
Qed.

End WithIdna.

(* the early-reject condition in terms of the Standard's class (the table is that class) *)
Lemma early_reject_spec input :
  early_reject input =
  match input with
  | [] => false
  | c0 :: _ =>
    negb (c0 =? 91) &&
    match drop_while ascii_domain_char input with
    | [] => false
    | t0 :: t1 =>
        (t0 <? 128) && negb (t0 =? 37) &&
        negb ((60 <=? t0) && (t0 <=? 62) && match t1 with x :: _ => (128 <=? x) || (x =? 37) | [] => false end)
    end
  end.
Proof.
  unfold early_reject, span. cbn [snd].
  rewrite (drop_while_ext _ _ input tbl_ascii_domain_spec). reflexivity.
Qed.

(* ---------- 6. the laws are satisfiable together (non-vacuity) ---------- *)

(* a stand-in for ToASCII: lowercases all-ASCII strings, fails on everything else *)
Definition idna_fake (s : list N) : option (list N) :=
  if forallb (fun c => c <? 128) s then Some (lower_str s) else None.

Lemma fake_ascii_law : ascii_law idna_fake.
Proof.
  intros s Hs _. unfold idna_fake.
  replace (forallb (fun c => c <? 128) s) with true; [reflexivity|].
  symmetry. apply forallb_forall. intros c Hc.
  rewrite Forall_forall in Hs. destruct (ascii_domain_char_facts c (Hs c Hc)) as (H & _). lia.
Qed.

Lemma forbidden_lower_id c : c < 128 -> forbidden_domain c = true -> ascii_lower c = c.
Proof.
  intros Hc Hf.
  assert (S : sweep256 (fun c => negb (forbidden_domain c) || (ascii_lower c =? c)) = true)
    by (vm_compute; reflexivity).
  pose proof (sweep256_sound _ S c ltac:(lia)) as Hs. cbv beta in Hs.
  rewrite Hf in Hs. cbn [negb orb] in Hs. apply N.eqb_eq in Hs. exact Hs.
Qed.

Lemma fake_keep_law_occ : keep_law_occ idna_fake.
Proof.
  intros pre c post r Hc Hf _ _ Hid. unfold idna_fake in Hid.
  destruct (forallb (fun c => c <? 128) (pre ++ c :: post)); [|discriminate].
  inversion Hid. subst r. unfold lower_str. rewrite map_app. apply in_or_app. right.
  cbn [map]. left. apply forbidden_lower_id; assumption.
Qed.

Lemma fake_keep_law : keep_law idna_fake.
Proof. exact (keep_law_occ_keep _ fake_keep_law_occ). Qed.

(* ---------- the formulation of H_keep given in the task is too weak ---------- *)

Lemma str_eqb_eq a : forall b, str_eqb a b = true -> a = b.
Proof.
  induction a as [|x a IH]; intros [|y b] H; try discriminate; [reflexivity|].
  cbn [str_eqb] in H. apply andb_prop in H. destruct H as [H1 H2].
  apply N.eqb_eq in H1. subst. f_equal. apply IH. exact H2.
Qed.

(* "<a<" U+0338 *)
Definition weak_input : str := [60; 97; 60; 824].
(* agrees with [idna_fake] except on that one string, where it succeeds with "x" *)
Definition idna_weak (s : list N) : option (list N) :=
  if str_eqb s weak_input then Some [120] else idna_fake s.

Lemma weak_ascii_law : ascii_law idna_weak.
Proof.
  intros s Hs Hxn. unfold idna_weak. destruct (str_eqb s weak_input) eqn:E.
  - apply str_eqb_eq in E. subst s. inversion Hs as [|? ? H _]. vm_compute in H. discriminate.
  - apply fake_ascii_law; assumption.
Qed.

Lemma weak_keep_law_given : keep_law_given idna_weak.
Proof.
  intros d r c Hr Hin Hc Hf H37 Hex. unfold idna_weak in Hr.
  destruct (str_eqb d weak_input) eqn:E.
  - apply str_eqb_eq in E. subst d. exfalso.
    destruct Hin as [<-|[<-|[<-|[<-|[]]]]].
    + apply Hex; [left; reflexivity|]. exists [60; 97], [], 824. split; [reflexivity|lia].
    + vm_compute in Hf. discriminate.
    + apply Hex; [left; reflexivity|]. exists [60; 97], [], 824. split; [reflexivity|lia].
    + lia.
  - exact (keep_law_occ_given _ fake_keep_law_occ d r c Hr Hin Hc Hf H37 Hex).
Qed.

Lemma weak_rejected_but_parsed :
  early_reject weak_input = true /\
  impl_parse_host idna_weak weak_input false = None /\
  host_parse idna_weak weak_input false = Some (HDomain [120]).
Proof. repeat split; vm_compute; reflexivity. Qed.

Lemma keep_law_given_too_weak :
  ~ (forall idna, ascii_law idna -> keep_law_given idna ->
       forall input, early_reject input = true -> host_parse idna input false = None).
Proof.
  intro H. specialize (H idna_weak weak_ascii_law weak_keep_law_given weak_input).
  destruct weak_rejected_but_parsed as (H1 & _ & H3). rewrite (H H1) in H3. discriminate.
Qed.

(* a second stand-in that does compose: '<' U+0338 becomes U+226E, i.e. "xn--gdh" (the laws
   do not look at the value); it satisfies the laws because of the exception in H_keep, and
   on this input the model does not reject early *)
Definition idna_comp (s : list N) : option (list N) :=
  if str_eqb s [60; 824] then Some [120; 110; 45; 45; 103; 100; 104] else idna_fake s.

Lemma comp_ascii_law : ascii_law idna_comp.
Proof.
  intros s Hs Hxn. unfold idna_comp. destruct (str_eqb s [60; 824]) eqn:E.
  - apply str_eqb_eq in E. subst s. inversion Hs as [|? ? H _]. vm_compute in H. discriminate.
  - apply fake_ascii_law; assumption.
Qed.

Lemma comp_keep_law_occ : keep_law_occ idna_comp.
Proof.
  intros pre c post r Hc Hf H37 Hex Hid. unfold idna_comp in Hid.
  destruct (str_eqb (pre ++ c :: post) [60; 824]) eqn:E.
  - apply str_eqb_eq in E. exfalso.
    destruct pre as [|p0 pre]; cbn [app] in E.
    + inversion E. subst. specialize (Hex ltac:(lia)). cbv beta iota in Hex. lia.
    + destruct pre as [|p1 pre]; cbn [app] in E.
      * inversion E. subst. lia.
      * destruct pre; discriminate.
  - exact (fake_keep_law_occ pre c post r Hc Hf H37 Hex Hid).
Qed.

Lemma comp_instance :
  early_reject [60; 824] = false /\
  impl_parse_host idna_comp [60; 824] false = Some (HDomain [120; 110; 45; 45; 103; 100; 104]) /\
  host_parse idna_comp [60; 824] false = Some (HDomain [120; 110; 45; 45; 103; 100; 104]).
Proof. repeat split; vm_compute; reflexivity. Qed.
