(* Block lemmas for the path / query / fragment states of the parser model:
   blk_path_start (PathStart), blk_path (Path, with parse_path / parse_path_loop),
   blk_opaque_path (OpaquePath), blk_query (Query), blk_fragment (Fragment).

   Reading of the flows (Proofs/ParserSim.v): [Go Query p u] stands for the machine state whose
   record is [set_query u (Some [])], [Go Fragment p u] for [set_fragment u (Some [])]
   ([flow_url]) — the Standard sets the empty query / fragment before it enters the state.
   All five lemmas are proved for EVERY value of [c_override c] (so in particular for the
   pathname / search / hash setters: PathStart, Query, Fragment) and for every [c_save c];
   the only side condition is the one of OpaquePath (the path of the record is opaque). *)
From Upa Require Import Base.Prelude Spec.CodePoints Spec.Utf Spec.Percent Spec.Ip Spec.Url Impl.Tables Impl.Parser
  Proofs.TableLemmas Proofs.TablesInst Proofs.ParserSim Proofs.SimBase.
From Coq Require Import Lia ZArith.
Local Open Scope N_scope.

(* ---------- generic list facts ---------- *)
Lemma take_drop_app (f : N -> bool) s : take_while f s ++ drop_while f s = s.
Proof.
  induction s as [|x s IH]; [reflexivity|]. cbn [take_while drop_while].
  destruct (f x); [cbn [app]; rewrite IH; reflexivity|reflexivity].
Qed.
Lemma take_while_all (f : N -> bool) s : forallb f (take_while f s) = true.
Proof.
  induction s as [|x s IH]; [reflexivity|]. cbn [take_while].
  destruct (f x) eqn:E; [cbn [forallb]; rewrite E, IH; reflexivity|reflexivity].
Qed.
Lemma drop_while_head (f : N -> bool) s x t : drop_while f s = x :: t -> f x = false.
Proof.
  induction s as [|y s IH]; [discriminate|]. cbn [drop_while].
  destruct (f y) eqn:E; [exact IH|]. intro H. inversion H; subst. exact E.
Qed.
Lemma forallb_take_while (g f : N -> bool) s : forallb g s = true -> forallb g (take_while f s) = true.
Proof.
  induction s as [|x s IH]; [reflexivity|]. cbn [take_while forallb].
  intro H. apply andb_true_iff in H. destruct H as [H1 H2].
  destruct (f x); [cbn [forallb]; rewrite H1; apply IH; exact H2|reflexivity].
Qed.
Lemma forallb_drop_while (g f : N -> bool) s : forallb g s = true -> forallb g (drop_while f s) = true.
Proof.
  induction s as [|x s IH]; [reflexivity|]. cbn [drop_while]. intro H.
  destruct (f x); [|exact H]. cbn [forallb] in H. apply andb_true_iff in H. apply IH. apply H.
Qed.
Lemma drop_while_length (f : N -> bool) s : (length (drop_while f s) <= length s)%nat.
Proof.
  induction s as [|x s IH]; [apply le_n|]. cbn [drop_while]. destruct (f x); cbn [length]; lia.
Qed.

(* ---------- the parser's encoding loops are the Standard's UTF-8 percent-encode ---------- *)
Lemma flat_map_single {A B} (f : A -> list B) (x : A) : flat_map f [x] = f x.
Proof. cbn [flat_map]. apply app_nil_r. Qed.

Lemma enc_with_spec (tbl : N -> bool) (set : N -> bool) :
  (forall c, tbl c = no_encode set c) -> (forall c, 128 <= c -> set c = true) ->
  forall s, enc_with tbl s = utf8_percent_encode set s.
Proof.
  intros Htbl Hhi s. unfold enc_with, utf8_percent_encode.
  induction s as [|c s IH]; [reflexivity|]. cbn [flat_map]. rewrite IH. f_equal.
  unfold utf8_percent_encode_cp. destruct (N.ltb_spec c 128) as [Hc|Hc].
  - rewrite Htbl. unfold no_encode. destruct (set c); cbn [negb]; [|reflexivity].
    unfold utf8_encode_cp. destruct (N.leb_spec c 127); [|lia]. rewrite flat_map_single. reflexivity.
  - rewrite (Hhi c Hc). reflexivity.
Qed.

Lemma c0_hi c : 128 <= c -> c0_control_encode c = true.
Proof. intro H. unfold c0_control_encode. destruct (N.ltb_spec 126 c); [apply orb_true_r|lia]. Qed.
Lemma fragment_hi c : 128 <= c -> fragment_encode c = true.
Proof. intro H. unfold fragment_encode. rewrite (c0_hi c H). reflexivity. Qed.
Lemma query_hi c : 128 <= c -> query_encode c = true.
Proof. intro H. unfold query_encode. rewrite (c0_hi c H). reflexivity. Qed.
Lemma special_query_hi c : 128 <= c -> special_query_encode c = true.
Proof. intro H. unfold special_query_encode. rewrite (query_hi c H). reflexivity. Qed.
Lemma path_hi c : 128 <= c -> path_encode c = true.
Proof. intro H. unfold path_encode. rewrite (query_hi c H). reflexivity. Qed.

Lemma enc_fragment s : enc_with in_fragment_set s = utf8_percent_encode fragment_encode s.
Proof. apply enc_with_spec; [exact fragment_set_spec|exact fragment_hi]. Qed.
Lemma enc_query s : enc_with in_query_set s = utf8_percent_encode query_encode s.
Proof. apply enc_with_spec; [exact query_set_spec|exact query_hi]. Qed.
Lemma enc_special_query s : enc_with in_special_query_set s = utf8_percent_encode special_query_encode s.
Proof. apply enc_with_spec; [exact special_query_set_spec|exact special_query_hi]. Qed.
Lemma enc_path s : enc_with in_path_set s = utf8_percent_encode path_encode s.
Proof. apply enc_with_spec; [exact path_set_spec|exact path_hi]. Qed.

Lemma enc_c0_spec s : enc_c0 s = utf8_percent_encode c0_control_encode s.
Proof.
  unfold enc_c0, utf8_percent_encode. induction s as [|c s IH]; [reflexivity|].
  cbn [flat_map]. rewrite IH. f_equal. unfold utf8_percent_encode_cp, c0_control_encode, is_c0_control.
  destruct (N.leb_spec 127 c) as [H1|H1].
  - destruct (N.ltb_spec 126 c); [|lia]. rewrite orb_true_r. reflexivity.
  - destruct (N.ltb_spec 126 c); [lia|]. rewrite orb_false_r.
    destruct (N.leb_spec c 31) as [H2|H2]; [|reflexivity].
    unfold utf8_encode_cp. destruct (N.leb_spec c 127); [|lia]. rewrite flat_map_single. reflexivity.
Qed.

Lemma utf8_percent_encode_app set a b :
  utf8_percent_encode set (a ++ b) = utf8_percent_encode set a ++ utf8_percent_encode set b.
Proof. unfold utf8_percent_encode. apply flat_map_app. Qed.

(* ---------- record facts ---------- *)
Lemma set_query_idem u a b : set_query (set_query u a) b = set_query u b.
Proof. reflexivity. Qed.
Lemma set_fragment_idem u a b : set_fragment (set_fragment u a) b = set_fragment u b.
Proof. reflexivity. Qed.
Lemma set_path_idem u a b : set_path (set_path u a) b = set_path u b.
Proof. reflexivity. Qed.
Lemma set_path_same u x : path u = x -> set_path u x = u.
Proof. intro H. destruct u. cbn in *. subst. reflexivity. Qed.

Lemma res_eq_ok_inv ov u r : res_eq ov (POk u) r -> r = POk u.
Proof. destruct r; cbn; intro H; [subst; reflexivity|contradiction|contradiction]. Qed.
Lemma res_eq_ok_refl ov u : res_eq ov (POk u) (POk u).
Proof. reflexivity. Qed.

Lemma negb_is_some_none {A} (o : option A) : negb (is_some o) = true -> o = None.
Proof. destruct o; [discriminate|reflexivity]. Qed.
Lemma is_c_some x k : is_c (Some x) k = (x =? k).
Proof. reflexivity. Qed.

(* ---------- dot segments: the encoded buffer against the raw segment ---------- *)
Definition is_e (c : N) : bool := (c =? 101) || (c =? 69).
(* the number of dot tokens ("." or "%2e" / "%2E") a string consists of, if it consists of them *)
Fixpoint dots (s : str) : option nat :=
  match s with
  | [] => Some O
  | x :: r =>
      if x =? 46 then option_map S (dots r)
      else match r with
           | y :: e :: r' => if (x =? 37) && (y =? 50) && is_e e then option_map S (dots r') else None
           | _ => None
           end
  end.
Definition dots_is (n : nat) (s : str) : bool :=
  match dots s with Some k => Nat.eqb k n | None => false end.

Lemma lor32_101 c : (N.lor c 32 =? 101) = is_e c.
Proof.
  unfold is_e. destruct c as [|q]; [reflexivity|].
  do 7 (destruct q as [q|q|]; try reflexivity).
Qed.

Lemma lower_not_upper x k : (k < 65 \/ 90 + 32 < k \/ (90 < k /\ k < 65 + 32)) -> (ascii_lower x =? k) = (x =? k).
Proof.
  intro Hk. unfold ascii_lower, is_ascii_upper_alpha.
  destruct (N.leb_spec 65 x); destruct (N.leb_spec x 90); cbn [andb];
  destruct (N.eqb_spec x k); try reflexivity; try (apply N.eqb_eq; lia); try (apply N.eqb_neq; lia); try (exfalso; lia).
Qed.
Lemma lower_46 x : (ascii_lower x =? 46) = (x =? 46). Proof. apply lower_not_upper. lia. Qed.
Lemma lower_37 x : (ascii_lower x =? 37) = (x =? 37). Proof. apply lower_not_upper. lia. Qed.
Lemma lower_50 x : (ascii_lower x =? 50) = (x =? 50). Proof. apply lower_not_upper. lia. Qed.
Lemma lower_101 x : (ascii_lower x =? 101) = is_e x.
Proof.
  unfold ascii_lower, is_ascii_upper_alpha, is_e.
  destruct (N.leb_spec 65 x); destruct (N.leb_spec x 90); cbn [andb];
  destruct (N.eqb_spec x 101); destruct (N.eqb_spec x 69); cbn [orb]; try reflexivity;
  try (apply N.eqb_eq; lia); try (apply N.eqb_neq; lia); try (exfalso; lia).
Qed.

Local Ltac eqb_cases :=
  repeat match goal with
  | |- context [N.eqb ?a ?b] =>
      is_var a; let E := fresh "E" in
      destruct (N.eqb a b) eqn:E; [apply N.eqb_eq in E; subst a|]; cbn
  end.

Local Ltac close_dots :=
  repeat (first [ reflexivity | discriminate
                | match goal with
                  | |- context [match ?r with [] => _ | _ :: _ => _ end] => is_var r; destruct r; cbn
                  | |- context [dots ?r] => is_var r; destruct (dots r); cbn
                  | |- context [if ?b then _ else _] => destruct b; cbn
                  end ]).

Lemma double_dot_dots seg : double_dot seg = dots_is 2 seg.
Proof.
  unfold dots_is, double_dot, escaped_dot.
  destruct seg as [|x1 [|x2 [|x3 [|x4 [|x5 [|x6 [|x7 r]]]]]]]; rewrite ?lor32_101; cbn [dots]; unfold is_e;
    eqb_cases; try reflexivity; try discriminate; try (destruct (dots _); reflexivity);
    try (match goal with |- context [option_map S (option_map S (option_map S ?X))] => destruct X end; reflexivity);
    close_dots.
Qed.

Lemma single_dot_dots seg : single_dot seg = dots_is 1 seg.
Proof.
  unfold dots_is, single_dot, escaped_dot.
  destruct seg as [|x1 [|x2 [|x3 [|x4 r]]]]; rewrite ?lor32_101; cbn [dots]; unfold is_e;
    eqb_cases; try reflexivity; try discriminate; close_dots.
Qed.

Lemma is_double_dot_dots b : is_double_dot b = dots_is 2 b.
Proof.
  unfold dots_is, is_double_dot.
  destruct b as [|x1 [|x2 [|x3 [|x4 [|x5 [|x6 [|x7 r]]]]]]]; cbn [lower_str map str_eqb];
    rewrite ?lower_46, ?lower_37, ?lower_50, ?lower_101; cbn [dots]; unfold is_e;
    eqb_cases; try reflexivity; try discriminate; close_dots.
Qed.

Lemma is_single_dot_dots b : is_single_dot b = dots_is 1 b.
Proof.
  unfold dots_is, is_single_dot.
  destruct b as [|x1 [|x2 [|x3 [|x4 r]]]]; cbn [lower_str map str_eqb];
    rewrite ?lower_46, ?lower_37, ?lower_50, ?lower_101; cbn [dots]; unfold is_e;
    eqb_cases; try reflexivity; try discriminate; close_dots.
Qed.

(* ---------- the shape of one percent-encoded code point (path percent-encode set) ---------- *)
Local Notation encp := (utf8_percent_encode_cp path_encode).
Local Notation encs := (utf8_percent_encode path_encode).

Lemma pe_not_dot b : b <> 46 -> (hex_digit_upper (b / 16) =? 50) && is_e (hex_digit_upper (b mod 16)) = false.
Proof.
  intro Hb. apply andb_false_iff.
  destruct (N.eqb_spec (hex_digit_upper (b / 16)) 50) as [E1|E1]; [right|left; reflexivity].
  pose proof (N.div_mod b 16 ltac:(lia)) as Hdm. pose proof (N.mod_lt b 16 ltac:(lia)) as Hlt.
  unfold is_e. apply orb_false_iff. unfold hex_digit_upper in *.
  destruct (N.ltb_spec (b / 16) 10); destruct (N.ltb_spec (b mod 16) 10); split; apply N.eqb_neq; lia.
Qed.

Lemma utf8_first x : exists b0 bs, utf8_encode_cp x = b0 :: bs /\ ((x <= 127 /\ b0 = x) \/ 128 <= b0).
Proof.
  unfold utf8_encode_cp.
  destruct (N.leb_spec x 127); [eexists _, _; split; [reflexivity|left; split; [assumption|reflexivity]]|].
  destruct (N.leb_spec x 2047); [eexists _, _; split; [reflexivity|right; lia]|].
  destruct (N.leb_spec x 65535); eexists _, _; (split; [reflexivity|right; lia]).
Qed.

Lemma encp_shape x :
  (path_encode x = false /\ encp x = [x]) \/
  (path_encode x = true /\ exists h1 h2 tl, encp x = 37 :: h1 :: h2 :: tl /\ (h1 =? 50) && is_e h2 = false).
Proof.
  unfold utf8_percent_encode_cp. destruct (path_encode x) eqn:E; [right|left; split; reflexivity].
  split; [reflexivity|]. destruct (utf8_first x) as (b0 & bs & Hu & Hb). rewrite Hu.
  cbn [flat_map]. unfold percent_encode_byte at 1. cbn [app].
  eexists _, _, _. split; [reflexivity|]. apply pe_not_dot.
  destruct Hb as [[Hx ->]|Hb]; [|lia]. intros ->. vm_compute in E. discriminate.
Qed.

Lemma encs_cons x r : encs (x :: r) = encp x ++ encs r.
Proof. reflexivity. Qed.

Lemma dots_triplet_none h1 h2 t : (h1 =? 50) && is_e h2 = false -> dots (37 :: h1 :: h2 :: t) = None.
Proof.
  intro H. cbn [dots]. change (37 =? 46) with false. change (37 =? 37) with true. cbv iota. cbn [andb].
  rewrite H. reflexivity.
Qed.
Lemma dots_nondot x r : x <> 46 -> x <> 37 -> dots (x :: r) = None.
Proof.
  intros H1 H2. cbn [dots]. apply N.eqb_neq in H1, H2. rewrite H1, H2.
  destruct r as [|y [|e r']]; reflexivity.
Qed.
Lemma dots_37 y e r : dots (37 :: y :: e :: r) = if (y =? 50) && is_e e then option_map S (dots r) else None.
Proof. reflexivity. Qed.

Lemma dots_enc : forall n seg, (length seg <= n)%nat -> dots (encs seg) = dots seg.
Proof.
  induction n as [|n IH]; intros seg Hlen.
  - destruct seg; [reflexivity|cbn [length] in Hlen; lia].
  - destruct seg as [|x r]; [reflexivity|]. cbn [length] in Hlen. rewrite encs_cons.
    destruct (encp_shape x) as [[Ex Hx]|[Ex (h1 & h2 & tl & Hx & Hh)]]; rewrite Hx; cbn [app].
    2:{ rewrite dots_triplet_none by exact Hh. symmetry.
        apply dots_nondot; intros ->; vm_compute in Ex; discriminate. }
    destruct (N.eqb_spec x 46) as [->|N46].
    { cbn [dots]. change (46 =? 46) with true. cbv iota. rewrite IH by lia. reflexivity. }
    destruct (N.eqb_spec x 37) as [->|N37].
    2:{ rewrite !dots_nondot by assumption. reflexivity. }
    destruct r as [|y r1]; [reflexivity|]. rewrite encs_cons.
    destruct (encp_shape y) as [[Ey Hy]|[Ey (h1 & h2 & tl & Hy & Hh)]]; rewrite Hy; cbn [app].
    2:{ rewrite dots_37. change (37 =? 50) with false. cbn [andb].
        assert (Ny : (y =? 50) = false) by (apply N.eqb_neq; intros ->; vm_compute in Ey; discriminate).
        destruct r1 as [|e r2]; [reflexivity|]. rewrite dots_37, Ny. reflexivity. }
    destruct r1 as [|e r2]; [reflexivity|]. rewrite encs_cons.
    destruct (encp_shape e) as [[Ee He]|[Ee (h1 & h2 & tl & He & Hh)]]; rewrite He; cbn [app].
    2:{ rewrite !dots_37. change (is_e 37) with false. rewrite andb_false_r.
        assert (Ne : is_e e = false).
        { unfold is_e. apply orb_false_iff; split; apply N.eqb_neq; intros ->; vm_compute in Ee; discriminate. }
        rewrite Ne, andb_false_r. reflexivity. }
    rewrite !dots_37. cbn [length] in Hlen. rewrite IH by lia. reflexivity.
Qed.

Lemma is_double_dot_enc seg : is_double_dot (encs seg) = double_dot seg.
Proof. rewrite is_double_dot_dots, double_dot_dots. unfold dots_is. rewrite (dots_enc (length seg)) by apply le_n. reflexivity. Qed.
Lemma is_single_dot_enc seg : is_single_dot (encs seg) = single_dot seg.
Proof. rewrite is_single_dot_dots, single_dot_dots. unfold dots_is. rewrite (dots_enc (length seg)) by apply le_n. reflexivity. Qed.

(* ---------- Windows drive letter: buffer against raw segment ---------- *)
Lemma alpha_not_path_encoded a : is_ascii_alpha a = true -> path_encode a = false.
Proof.
  unfold is_ascii_alpha, is_ascii_upper_alpha, is_ascii_lower_alpha.
  unfold path_encode, query_encode, c0_control_encode, is_c0_control, in_list. cbn [existsb].
  intro H.
  repeat match goal with |- context [N.eqb a ?k] => destruct (N.eqb_spec a k); [subst a; vm_compute in H; discriminate|] end.
  destruct (N.leb_spec a 31); [exfalso; destruct (N.leb_spec 65 a); destruct (N.leb_spec 97 a); cbn in H; try discriminate; lia|].
  destruct (N.ltb_spec 126 a); [exfalso; destruct (N.leb_spec a 90); destruct (N.leb_spec a 122); cbn in H; rewrite ?andb_false_r in H; try discriminate; lia|].
  reflexivity.
Qed.

Lemma drive_enc seg :
  (exists a b, seg = [a; b] /\ is_windows_drive a b = true /\ encs seg = [a; b]) \/
  (is_windows_drive_letter (encs seg) = false /\
   match seg with [a; b] => is_windows_drive a b | _ => false end = false).
Proof.
  destruct seg as [|a [|b [|c r]]].
  - right. split; reflexivity.
  - right. split; [|reflexivity]. rewrite encs_cons.
    destruct (encp_shape a) as [[Ea Ha]|[Ea (h1 & h2 & tl & Ha & _)]]; rewrite Ha; reflexivity.
  - rewrite !encs_cons. change (encs []) with (@nil N).
    destruct (encp_shape a) as [[Ea Ha]|[Ea (h1 & h2 & tl & Ha & _)]]; rewrite Ha.
    2:{ right. split; [reflexivity|]. unfold is_windows_drive.
        destruct (is_ascii_alpha a) eqn:Al; [|reflexivity]. rewrite (alpha_not_path_encoded a Al) in Ea. discriminate. }
    destruct (encp_shape b) as [[Eb Hb]|[Eb (h1 & h2 & tl & Hb & _)]]; rewrite Hb.
    2:{ right. split; [reflexivity|]. unfold is_windows_drive.
        assert (E1 : (b =? 58) = false) by (apply N.eqb_neq; intros ->; vm_compute in Eb; discriminate).
        assert (E2 : (b =? 124) = false) by (apply N.eqb_neq; intros ->; vm_compute in Eb; discriminate).
        rewrite E1, E2. apply andb_false_r. }
    cbn [app]. destruct (is_windows_drive a b) eqn:Ed.
    + left. exists a, b. split; [reflexivity|]. split; first [exact Ed|reflexivity].
    + right. split; first [exact Ed|reflexivity].
  - right. split; [|reflexivity]. rewrite !encs_cons.
    destruct (encp_shape a) as [[Ea Ha]|[Ea (h1 & h2 & tl & Ha & _)]]; rewrite Ha; [|reflexivity].
    destruct (encp_shape b) as [[Eb Hb]|[Eb (h1 & h2 & tl & Hb & _)]]; rewrite Hb; [|reflexivity].
    destruct (encp_shape c) as [[Ec Hc]|[Ec (h1 & h2 & tl & Hc & _)]]; rewrite Hc; reflexivity.
Qed.

(* ---------- shorten ---------- *)
Lemma shorten_eq u : shorten_path u = ser_shorten_path u.
Proof.
  unfold shorten_path, ser_shorten_path. destruct (path u) as [o|l] eqn:Hp; [reflexivity|].
  destruct l as [|x [|y l']].
  - cbn [removelast]. apply set_path_same. exact Hp.
  - destruct x as [|a [|b [|c r]]]; reflexivity.
  - reflexivity.
Qed.

(* ---------- what the path state does with a finished segment ---------- *)
Definition mach_seg (u : url) (buffer : str) (slash : bool) : url :=
  if is_double_dot buffer then
    let u := shorten_path u in
    if negb slash then path_append u [] else u
  else if is_single_dot buffer && negb slash then path_append u []
  else if negb (is_single_dot buffer) then
    let buffer :=
      if is_file u && path_is_empty_list u && is_windows_drive_letter buffer
      then match buffer with [a; _] => [a; 58] | _ => buffer end
      else buffer in
    path_append u buffer
  else u.

Definition model_seg (u : url) (seg : str) (is_last : bool) : url :=
  if double_dot seg then
    let u := ser_shorten_path u in if is_last then ser_append_segment u [] else u
  else if single_dot seg then
    if is_last then ser_append_segment u [] else u
  else
    match seg with
    | [a; b] => if is_file u && ser_is_empty_path u && is_windows_drive a b
                then ser_append_segment u [a; 58]
                else ser_append_segment u (enc_with in_path_set seg)
    | _ => ser_append_segment u (enc_with in_path_set seg)
    end.

Lemma seg_equiv u seg slash :
  mach_seg u (encs seg) slash = model_seg u seg (negb slash).
Proof.
  unfold mach_seg, model_seg. rewrite is_double_dot_enc, is_single_dot_enc.
  destruct (double_dot seg) eqn:DD.
  { rewrite shorten_eq. destruct slash; reflexivity. }
  destruct (single_dot seg) eqn:SD.
  { destruct slash; reflexivity. }
  cbn [andb negb]. rewrite enc_path.
  destruct (drive_enc seg) as [(a & b & -> & Hd & HE)|[H1 H2]].
  - rewrite HE. change (is_windows_drive_letter [a; b]) with (is_windows_drive a b). rewrite Hd.
    change (ser_is_empty_path u) with (path_is_empty_list u).
    destruct (is_file u && path_is_empty_list u); reflexivity.
  - rewrite H1, andb_false_r.
    destruct seg as [|a [|b [|c r]]]; try reflexivity.
    rewrite H2, andb_false_r. reflexivity.
Qed.

Section Blocks.
Variable idna : list N -> option (list N).

Section Machine.
Variable input : str.
Variable base : option url.
Variable ov : option pstate.
Notation stepf := (Spec.Url.step idna input base ov).
Notation evalf := (eval idna input base ov).

(* one machine step that continues in place, at a character (never the last machine step) *)
Lemma eval_char m x p m' r :
  is_suffix input (x :: p) -> m_pointer m = pointer_of input (x :: p) ->
  stepf m = Cont m' -> m_pointer m' = m_pointer m ->
  evalf (with_pointer m' (pointer_of input p)) r -> evalf m r.
Proof.
  intros Hsuf Hp Hs Hp' He. eapply E_cont; [exact Hs| |].
  - rewrite Hp', Hp. apply pointer_of_lt. exact Hsuf.
  - unfold inc_pointer. rewrite Hp', Hp, <- pointer_of_cons. exact He.
Qed.

(* a step that decrements the pointer ("decrease pointer by 1"): the next run starts at the
   same position *)
Lemma eval_dec m p m' r :
  is_suffix input p -> m_pointer m = pointer_of input p ->
  stepf m = Cont m' -> m_pointer m' = (m_pointer m - 1)%Z ->
  evalf (with_pointer m' (pointer_of input p)) r -> evalf m r.
Proof.
  intros Hsuf Hp Hs Hp' He. eapply E_cont; [exact Hs| |].
  - rewrite Hp', Hp. pose proof (pointer_of_range input p Hsuf). lia.
  - unfold inc_pointer. rewrite Hp'. replace (m_pointer m - 1 + 1)%Z with (pointer_of input p) by lia. exact He.
Qed.

(* the last step, at EOF *)
Lemma eval_eof m m' :
  m_pointer m = pointer_of input [] -> stepf m = Cont m' -> m_pointer m' = m_pointer m ->
  evalf m (POk (m_url m')).
Proof.
  intros Hp Hs Hp'. eapply E_done; [exact Hs|]. rewrite Hp', Hp, pointer_of_nil. lia.
Qed.

(* ================= Fragment ================= *)
Lemma step_fragment_char u buf a b pw ptr x :
  char_at input ptr = Some x ->
  stepf (mk_m Fragment u buf a b pw ptr) =
  Cont (mk_m Fragment (set_fragment u (Some (match fragment u with Some f => f | None => [] end ++
                                              utf8_percent_encode_cp fragment_encode x))) buf a b pw ptr).
Proof. intro H. unfold step. cbn [m_state m_url m_buffer m_at m_brackets m_pwtoken m_pointer]. rewrite H. reflexivity. Qed.
Lemma step_fragment_eof u buf a b pw ptr :
  char_at input ptr = None ->
  stepf (mk_m Fragment u buf a b pw ptr) = Cont (mk_m Fragment u buf a b pw ptr).
Proof. intro H. unfold step. cbn [m_state m_url m_buffer m_at m_brackets m_pwtoken m_pointer]. rewrite H. reflexivity. Qed.

Lemma fragment_loop : forall p u f buf a b pw, is_suffix input p ->
  evalf (mk_m Fragment (set_fragment u (Some f)) buf a b pw (pointer_of input p))
        (POk (set_fragment u (Some (f ++ utf8_percent_encode fragment_encode p)))).
Proof.
  induction p as [|x p IH]; intros u f buf a b pw Hsuf.
  - cbn [utf8_percent_encode flat_map]. rewrite app_nil_r.
    change (set_fragment u (Some f)) with (m_url (mk_m Fragment (set_fragment u (Some f)) buf a b pw (pointer_of input []))) at 2.
    apply eval_eof; [reflexivity| |reflexivity].
    apply step_fragment_eof. apply char_at_eof.
  - eapply eval_char; [exact Hsuf|reflexivity|apply step_fragment_char; apply char_at_suffix; exact Hsuf|reflexivity|].
    + cbn [with_pointer m_state m_url m_buffer m_at m_brackets m_pwtoken fragment set_fragment].
      rewrite set_fragment_idem.
      replace (f ++ utf8_percent_encode fragment_encode (x :: p))
        with ((f ++ utf8_percent_encode_cp fragment_encode x) ++ utf8_percent_encode fragment_encode p)
        by (unfold utf8_percent_encode; cbn [flat_map]; rewrite app_assoc; reflexivity).
      apply IH. eapply suffix_tail. exact Hsuf.
Qed.

(* ================= Query ================= *)
Definition query_split (ovb : bool) (p : str) : str * str :=
  if ovb then (p, []) else break_at (fun ch => ch =? 35) p.
Lemma query_split_nil ovb : query_split ovb [] = ([], []).
Proof. destruct ovb; reflexivity. Qed.
Definition query_set_of (u : url) : N -> bool := if is_special u then special_query_encode else query_encode.

Lemma step_query_char u buf a b pw ptr x :
  char_at input ptr = Some x -> negb (is_some ov) && (x =? 35) = false ->
  stepf (mk_m Query u buf a b pw ptr) = Cont (mk_m Query u (buf ++ [x]) a b pw ptr).
Proof.
  intros H Hx. unfold step. cbn [m_state m_url m_buffer m_at m_brackets m_pwtoken m_pointer]. rewrite H.
  rewrite is_c_some, Hx. reflexivity.
Qed.
Lemma step_query_eof u buf a b pw ptr :
  char_at input ptr = None ->
  stepf (mk_m Query u buf a b pw ptr) =
  Cont (mk_m Query (set_query u (Some (match query u with Some q => q | None => [] end ++
                                       utf8_percent_encode (query_set_of u) buf))) [] a b pw ptr).
Proof.
  intros H. unfold step. cbn [m_state m_url m_buffer m_at m_brackets m_pwtoken m_pointer]. rewrite H.
  cbn [is_c is_eof is_none andb orb]. rewrite andb_false_r. cbn [orb]. reflexivity.
Qed.
Lemma step_query_hash u buf a b pw ptr :
  char_at input ptr = Some 35 -> ov = None ->
  stepf (mk_m Query u buf a b pw ptr) =
  Cont (mk_m Fragment
          (set_fragment (set_query u (Some (match query u with Some q => q | None => [] end ++
                                            utf8_percent_encode (query_set_of u) buf))) (Some []))
          [] a b pw ptr).
Proof.
  intros H Hov. unfold step. cbn [m_state m_url m_buffer m_at m_brackets m_pwtoken m_pointer]. rewrite H. subst ov.
  reflexivity.
Qed.

(* the machine in the query state with [buf] already collected, in front of [p] *)
Lemma query_loop : forall p u q0 buf a b pw, is_suffix input p ->
  let qr := query_split (is_some ov) p in
  let u1 := set_query u (Some (q0 ++ utf8_percent_encode (query_set_of u) (buf ++ fst qr))) in
  match snd qr with
  | [] => evalf (mk_m Query (set_query u (Some q0)) buf a b pw (pointer_of input p)) (POk u1)
  | _ :: rest' =>
      forall r, evalf (mk_m Fragment (set_fragment u1 (Some [])) [] a b pw (pointer_of input rest')) r ->
                evalf (mk_m Query (set_query u (Some q0)) buf a b pw (pointer_of input p)) r
  end.
Proof.
  induction p as [|x p IH]; intros u q0 buf a b pw Hsuf; cbv zeta.
  - rewrite query_split_nil. cbn [fst snd]. rewrite app_nil_r.
    match goal with |- evalf ?m (POk ?u1) =>
      change (evalf m (POk (m_url (mk_m Query u1 [] a b pw (pointer_of input []))))) end.
    apply eval_eof; [reflexivity| |reflexivity].
    rewrite step_query_eof by apply char_at_eof. reflexivity.
  - destruct (negb (is_some ov) && (x =? 35)) eqn:Ex.
    + (* '#' without override *)
      apply andb_true_iff in Ex. destruct Ex as [Eov Ex]. apply N.eqb_eq in Ex. subst x.
      pose proof (negb_is_some_none _ Eov) as Hov. replace (is_some ov) with false by (rewrite Hov; reflexivity).
      unfold query_split, break_at, span. cbn [take_while drop_while N.eqb Pos.eqb negb fst snd]. rewrite app_nil_r.
      intros r Hr. eapply eval_char; [exact Hsuf|reflexivity| apply step_query_hash; [apply char_at_suffix; exact Hsuf|exact Hov] |reflexivity|exact Hr].
    + (* an ordinary character *)
      specialize (IH u q0 (buf ++ [x]) a b pw (suffix_tail _ _ _ Hsuf)). cbv zeta in IH.
      assert (Hstep : forall r, evalf (mk_m Query (set_query u (Some q0)) (buf ++ [x]) a b pw (pointer_of input p)) r ->
                                evalf (mk_m Query (set_query u (Some q0)) buf a b pw (pointer_of input (x :: p))) r).
      { intros r Hr. eapply eval_char; [exact Hsuf|reflexivity|apply step_query_char; [apply char_at_suffix; exact Hsuf|exact Ex]|reflexivity|exact Hr]. }
      unfold query_split in *. destruct (is_some ov) eqn:Hov.
      * cbn [fst snd] in *. rewrite <- app_assoc in IH. cbn [app] in IH. apply Hstep. exact IH.
      * cbn [negb andb] in Ex. unfold break_at, span in *. cbn [take_while drop_while]. rewrite Ex. cbn [negb fst snd] in *.
        rewrite <- app_assoc in IH. cbn [app] in IH.
        destruct (drop_while (fun c : N => negb (c =? 35)) p) as [|y rest'].
        -- apply Hstep. exact IH.
        -- intros r Hr. apply Hstep. apply IH. exact Hr.
Qed.

(* ================= OpaquePath ================= *)
Lemma step_opaque_char u o buf a b pw ptr x :
  char_at input ptr = Some x -> (x =? 63) = false -> (x =? 35) = false -> path u = POpaque o ->
  stepf (mk_m OpaquePath u buf a b pw ptr) =
  Cont (mk_m OpaquePath (set_path u (POpaque (o ++ utf8_percent_encode_cp c0_control_encode x))) buf a b pw ptr).
Proof.
  intros H H1 H2 Hp. unfold step. cbn [m_state m_url m_buffer m_at m_brackets m_pwtoken m_pointer]. rewrite H.
  rewrite !is_c_some, H1, H2, Hp. reflexivity.
Qed.
Lemma step_opaque_eof u buf a b pw ptr :
  char_at input ptr = None ->
  stepf (mk_m OpaquePath u buf a b pw ptr) = Cont (mk_m OpaquePath u buf a b pw ptr).
Proof. intros H. unfold step. cbn [m_state m_url m_buffer m_at m_brackets m_pwtoken m_pointer]. rewrite H. reflexivity. Qed.
Lemma step_opaque_q u buf a b pw ptr :
  char_at input ptr = Some 63 ->
  stepf (mk_m OpaquePath u buf a b pw ptr) = Cont (mk_m Query (set_query u (Some [])) buf a b pw ptr).
Proof. intros H. unfold step. cbn [m_state m_url m_buffer m_at m_brackets m_pwtoken m_pointer]. rewrite H. reflexivity. Qed.
Lemma step_opaque_h u buf a b pw ptr :
  char_at input ptr = Some 35 ->
  stepf (mk_m OpaquePath u buf a b pw ptr) = Cont (mk_m Fragment (set_fragment u (Some [])) buf a b pw ptr).
Proof. intros H. unfold step. cbn [m_state m_url m_buffer m_at m_brackets m_pwtoken m_pointer]. rewrite H. reflexivity. Qed.

Lemma opaque_loop : forall p u o buf a b pw, is_suffix input p ->
  let qr := break_at (fun ch => (ch =? 63) || (ch =? 35)) p in
  let u1 := set_path u (POpaque (o ++ utf8_percent_encode c0_control_encode (fst qr))) in
  match snd qr with
  | [] => evalf (mk_m OpaquePath (set_path u (POpaque o)) buf a b pw (pointer_of input p)) (POk u1)
  | ch :: rest' =>
      forall r,
        (if ch =? 63 then evalf (mk_m Query (set_query u1 (Some [])) buf a b pw (pointer_of input rest')) r
         else evalf (mk_m Fragment (set_fragment u1 (Some [])) buf a b pw (pointer_of input rest')) r) ->
        evalf (mk_m OpaquePath (set_path u (POpaque o)) buf a b pw (pointer_of input p)) r
  end.
Proof.
  induction p as [|x p IH]; intros u o buf a b pw Hsuf; cbv zeta.
  - unfold break_at, span. cbn [take_while drop_while fst snd utf8_percent_encode flat_map]. rewrite app_nil_r.
    match goal with |- evalf ?m (POk ?u1) =>
      change (evalf m (POk (m_url (mk_m OpaquePath u1 buf a b pw (pointer_of input []))))) end.
    apply eval_eof; [reflexivity| |reflexivity].
    apply step_opaque_eof. apply char_at_eof.
  - unfold break_at, span. cbn [take_while drop_while].
    destruct (x =? 63) eqn:E63.
    + apply N.eqb_eq in E63. subst x. cbn [orb negb fst snd utf8_percent_encode flat_map N.eqb Pos.eqb]. rewrite app_nil_r.
      intros r Hr. eapply eval_char; [exact Hsuf|reflexivity|apply step_opaque_q; apply char_at_suffix; exact Hsuf|reflexivity|exact Hr].
    + destruct (x =? 35) eqn:E35.
      * apply N.eqb_eq in E35. subst x. cbn [orb negb fst snd utf8_percent_encode flat_map N.eqb Pos.eqb]. rewrite app_nil_r.
        intros r Hr. eapply eval_char; [exact Hsuf|reflexivity|apply step_opaque_h; apply char_at_suffix; exact Hsuf|reflexivity|exact Hr].
      * cbn [orb negb fst snd].
        specialize (IH u (o ++ utf8_percent_encode_cp c0_control_encode x) buf a b pw (suffix_tail _ _ _ Hsuf)). cbv zeta in IH.
        unfold break_at, span in IH. cbn [fst snd] in IH.
        assert (Hstep : forall r,
          evalf (mk_m OpaquePath (set_path u (POpaque (o ++ utf8_percent_encode_cp c0_control_encode x))) buf a b pw (pointer_of input p)) r ->
          evalf (mk_m OpaquePath (set_path u (POpaque o)) buf a b pw (pointer_of input (x :: p))) r).
        { intros r Hr. eapply eval_char; [exact Hsuf|reflexivity|
            apply (step_opaque_char _ o); [apply char_at_suffix; exact Hsuf|assumption|assumption|reflexivity] |reflexivity|exact Hr]. }
        replace (o ++ utf8_percent_encode c0_control_encode (x :: take_while (fun c => negb ((c =? 63) || (c =? 35))) p))
          with ((o ++ utf8_percent_encode_cp c0_control_encode x) ++
                utf8_percent_encode c0_control_encode (take_while (fun c => negb ((c =? 63) || (c =? 35))) p))
          by (unfold utf8_percent_encode; cbn [flat_map]; rewrite app_assoc; reflexivity).
        destruct (drop_while (fun c : N => negb ((c =? 63) || (c =? 35))) p) as [|y rest'].
        -- apply Hstep. exact IH.
        -- intros r Hr. apply Hstep. apply IH. exact Hr.
Qed.

(* ================= PathStart ================= *)
Lemma step_path_start u buf a b pw ptr :
  stepf (mk_m PathStart u buf a b pw ptr) =
  let c := char_at input ptr in
  if is_special u then
    if negb (is_c c 47) && negb (is_c c 92) then Cont (mk_m Path u buf a b pw (ptr - 1)%Z)
    else Cont (mk_m Path u buf a b pw ptr)
  else if negb (is_some ov) && is_c c 63 then Cont (mk_m Query (set_query u (Some [])) buf a b pw ptr)
  else if negb (is_some ov) && is_c c 35 then Cont (mk_m Fragment (set_fragment u (Some [])) buf a b pw ptr)
  else if negb (is_eof c) then
    if negb (is_c c 47) then Cont (mk_m Path u buf a b pw (ptr - 1)%Z) else Cont (mk_m Path u buf a b pw ptr)
  else if is_some ov && is_none (uhost u) then Cont (mk_m PathStart (path_append u []) buf a b pw ptr)
  else Cont (mk_m PathStart u buf a b pw ptr).
Proof. reflexivity. Qed.

(* ================= Path ================= *)
Definition qh (x : N) : bool := (x =? 63) || (x =? 35).
Definition slash_pred (u : url) : N -> bool := if is_special u then is_slash else (fun ch => ch =? 47).
Definition ov_qh (x : N) : bool := negb (is_some ov) && qh x.

Lemma step_path u buf a b pw ptr :
  stepf (mk_m Path u buf a b pw ptr) =
  let c := char_at input ptr in
  let special_bs := is_special u && is_c c 92 in
  if is_eof c || is_c c 47 || special_bs || (negb (is_some ov) && (is_c c 63 || is_c c 35)) then
    let u' := mach_seg u buf (is_c c 47 || special_bs) in
    if is_c c 63 then Cont (mk_m Query (set_query u' (Some [])) [] a b pw ptr)
    else if is_c c 35 then Cont (mk_m Fragment (set_fragment u' (Some [])) [] a b pw ptr)
    else Cont (mk_m Path u' [] a b pw ptr)
  else match c with
       | Some x => Cont (mk_m Path u (buf ++ utf8_percent_encode_cp path_encode x) a b pw ptr)
       | None => Cont (mk_m Path u buf a b pw ptr)
       end.
Proof. reflexivity. Qed.

Lemma slash_pred_false u x : slash_pred u x = false -> (x =? 47) = false /\ is_special u && (x =? 92) = false.
Proof.
  unfold slash_pred, is_slash. destruct (is_special u); cbn [andb]; intro H.
  - apply orb_false_iff in H. exact H.
  - split; [exact H|reflexivity].
Qed.
Lemma slash_pred_true u x : slash_pred u x = true -> (x =? 47) || (is_special u && (x =? 92)) = true /\ qh x = false.
Proof.
  unfold slash_pred, is_slash, qh. destruct (is_special u); cbn [andb]; intro H.
  - split; [exact H|]. apply orb_true_iff in H. destruct H as [H|H]; apply N.eqb_eq in H; subst x; reflexivity.
  - split; [rewrite H; reflexivity|]. apply N.eqb_eq in H; subst x; reflexivity.
Qed.

(* the code points of one segment go, percent-encoded, into the buffer *)
Lemma path_seg_chars : forall seg tail u buf a b pw,
  is_suffix input (seg ++ tail) ->
  forallb (fun x => negb (slash_pred u x)) seg = true ->
  forallb (fun x => negb (ov_qh x)) seg = true ->
  forall r, evalf (mk_m Path u (buf ++ utf8_percent_encode path_encode seg) a b pw (pointer_of input tail)) r ->
            evalf (mk_m Path u buf a b pw (pointer_of input (seg ++ tail))) r.
Proof.
  induction seg as [|x seg IH]; intros tail u buf a b pw Hsuf Hs Hq r Hr.
  - cbn [utf8_percent_encode flat_map app] in *. rewrite app_nil_r in Hr. exact Hr.
  - cbn [forallb] in Hs, Hq. apply andb_true_iff in Hs, Hq. destruct Hs as [Hs1 Hs2]. destruct Hq as [Hq1 Hq2].
    apply negb_true_iff in Hs1, Hq1. apply slash_pred_false in Hs1. destruct Hs1 as [E47 E92].
    cbn [app] in Hsuf |- *.
    unfold ov_qh, qh in Hq1.
    eapply eval_char; [exact Hsuf|reflexivity|
      rewrite step_path; cbv zeta; rewrite (char_at_suffix _ _ _ Hsuf), !is_c_some;
      cbn [is_eof is_none orb]; rewrite E47, E92; cbn [orb]; rewrite Hq1; reflexivity |reflexivity|].
    + cbn [with_pointer m_state m_url m_buffer m_at m_brackets m_pwtoken].
      rewrite encs_cons, app_assoc in Hr.
      apply IH; [eapply suffix_tail; exact Hsuf|exact Hs2|exact Hq2|exact Hr].
Qed.

(* the converse direction for the segment characters (the machine is deterministic): used to
   reduce the entry from the file host state, which keeps a Windows drive letter in the buffer,
   to the empty-buffer entry of [at_state] *)
Lemma eval_cont_inv m m' r :
  stepf m = Cont m' -> (m_pointer m' < Z.of_nat (length input))%Z -> evalf m r -> evalf (inc_pointer m') r.
Proof.
  intros Hs Hp He.
  inversion He as [m0 Hs2|m0 u2 Hs2|m0 m2 Hs2 Hp2|m0 m2 r0 Hs2 Hp2 He2]; subst; rewrite Hs in Hs2;
    try discriminate; inversion Hs2; subst; [lia|exact He2].
Qed.
Lemma eval_char_inv m x p m' r :
  is_suffix input (x :: p) -> m_pointer m = pointer_of input (x :: p) ->
  stepf m = Cont m' -> m_pointer m' = m_pointer m ->
  evalf m r -> evalf (with_pointer m' (pointer_of input p)) r.
Proof.
  intros Hsuf Hp Hs Hp' He.
  assert (Hlt : (m_pointer m' < Z.of_nat (length input))%Z) by (rewrite Hp', Hp; apply pointer_of_lt; exact Hsuf).
  pose proof (eval_cont_inv m m' r Hs Hlt He) as H. unfold inc_pointer in H.
  rewrite Hp', Hp, <- pointer_of_cons in H. exact H.
Qed.
Lemma path_seg_chars_inv : forall seg tail u buf a b pw,
  is_suffix input (seg ++ tail) ->
  forallb (fun x => negb (slash_pred u x)) seg = true ->
  forallb (fun x => negb (ov_qh x)) seg = true ->
  forall r, evalf (mk_m Path u buf a b pw (pointer_of input (seg ++ tail))) r ->
            evalf (mk_m Path u (buf ++ utf8_percent_encode path_encode seg) a b pw (pointer_of input tail)) r.
Proof.
  induction seg as [|x seg IH]; intros tail u buf a b pw Hsuf Hs Hq r Hr.
  - cbn [utf8_percent_encode flat_map app] in *. rewrite app_nil_r. exact Hr.
  - cbn [forallb] in Hs, Hq. apply andb_true_iff in Hs, Hq. destruct Hs as [Hs1 Hs2]. destruct Hq as [Hq1 Hq2].
    apply negb_true_iff in Hs1, Hq1. apply slash_pred_false in Hs1. destruct Hs1 as [E47 E92].
    cbn [app] in Hsuf, Hr. unfold ov_qh, qh in Hq1.
    rewrite encs_cons, app_assoc.
    apply IH; [eapply suffix_tail; exact Hsuf|exact Hs2|exact Hq2|].
    refine (eval_char_inv (mk_m Path u buf a b pw (pointer_of input (x :: seg ++ tail))) x (seg ++ tail) (mk_m Path u (buf ++ utf8_percent_encode_cp path_encode x) a b pw (pointer_of input (x :: seg ++ tail))) r Hsuf eq_refl _ eq_refl Hr).
    rewrite step_path; cbv zeta; rewrite (char_at_suffix _ _ _ Hsuf), !is_c_some;
      cbn [is_eof is_none orb]; rewrite E47, E92; cbn [orb]; rewrite Hq1; reflexivity.
Qed.

Lemma path_drive_buffer a b rest u at_ br pw r :
  is_suffix input (a :: b :: rest) -> is_windows_drive a b = true ->
  evalf (mk_m Path u [] at_ br pw (pointer_of input (a :: b :: rest))) r ->
  evalf (mk_m Path u [a; b] at_ br pw (pointer_of input rest)) r.
Proof.
  intros Hsuf Hd Hr.
  destruct (drive_enc [a; b]) as [(a' & b' & Heq & _ & HE)|[_ H2]]; [|rewrite Hd in H2; discriminate].
  inversion Heq; subst a' b'. rewrite <- HE.
  apply (path_seg_chars_inv [a; b] rest u [] at_ br pw Hsuf); [| |exact Hr];
    unfold is_windows_drive in Hd; apply andb_true_iff in Hd; destruct Hd as [Ha Hb].
  - assert (Ea : slash_pred u a = false).
    { unfold slash_pred, is_slash. unfold is_ascii_alpha, is_ascii_upper_alpha, is_ascii_lower_alpha in Ha.
      destruct (N.eqb_spec a 47) as [->|N1]; [discriminate|]. destruct (N.eqb_spec a 92) as [->|N2]; [discriminate|].
      apply N.eqb_neq in N1, N2. destruct (is_special u); cbv beta; rewrite ?N1, ?N2; reflexivity. }
    assert (Eb : slash_pred u b = false).
    { unfold slash_pred, is_slash. apply orb_true_iff in Hb. destruct Hb as [Hb|Hb]; apply N.eqb_eq in Hb; subst b;
        destruct (is_special u); reflexivity. }
    cbn [forallb]. rewrite Ea, Eb. reflexivity.
  - assert (Ea : qh a = false).
    { unfold qh. unfold is_ascii_alpha, is_ascii_upper_alpha, is_ascii_lower_alpha in Ha.
      destruct (N.eqb_spec a 63) as [->|N1]; [discriminate|]. destruct (N.eqb_spec a 35) as [->|N2]; [discriminate|].
      apply N.eqb_neq in N1, N2. rewrite ?N1, ?N2. reflexivity. }
    assert (Eb : qh b = false).
    { unfold qh. apply orb_true_iff in Hb. destruct Hb as [Hb|Hb]; apply N.eqb_eq in Hb; subst b; reflexivity. }
    cbn [forallb]. unfold ov_qh. rewrite Ea, Eb, !andb_false_r. reflexivity.
Qed.

Definition after_path (u' : url) (tail : str) (a b pw : bool) (r : presult) : Prop :=
  match tail with
  | [] => r = POk u'
  | ch :: t => if ch =? 63 then evalf (mk_m Query (set_query u' (Some [])) [] a b pw (pointer_of input t)) r
               else evalf (mk_m Fragment (set_fragment u' (Some [])) [] a b pw (pointer_of input t)) r
  end.

Lemma parse_path_loop_S fuel p u :
  parse_path_loop (S fuel) p u =
  let seg := take_while (fun c => negb (slash_pred u c)) p in
  let rest := drop_while (fun c => negb (slash_pred u c)) p in
  let u' := model_seg u seg (match rest with [] => true | _ => false end) in
  match rest with [] => u' | _ :: rest' => parse_path_loop fuel rest' u' end.
Proof. reflexivity. Qed.

Lemma path_loop : forall fuel pathtxt u tail a b pw r,
  (length pathtxt < fuel)%nat ->
  forallb (fun x => negb (ov_qh x)) pathtxt = true ->
  match tail with [] => True | ch :: _ => ov_qh ch = true end ->
  is_suffix input (pathtxt ++ tail) ->
  after_path (parse_path_loop fuel pathtxt u) tail a b pw r ->
  evalf (mk_m Path u [] a b pw (pointer_of input (pathtxt ++ tail))) r.
Proof.
  induction fuel as [|fuel IH]; intros pathtxt u tail a b pw r Hlen Hq Htail Hsuf Hafter; [lia|].
  rewrite parse_path_loop_S in Hafter. cbv zeta in Hafter.
  pose proof (take_drop_app (fun c => negb (slash_pred u c)) pathtxt) as Happ.
  pose proof (take_while_all (fun c => negb (slash_pred u c)) pathtxt) as Hseg.
  pose proof (forallb_take_while _ (fun c => negb (slash_pred u c)) _ Hq) as Hqseg.
  pose proof (forallb_drop_while _ (fun c => negb (slash_pred u c)) _ Hq) as Hqrest.
  pose proof (drop_while_length (fun c => negb (slash_pred u c)) pathtxt) as Hlenrest.
  pose proof (drop_while_head (fun c => negb (slash_pred u c)) pathtxt) as Hhead.
  set (seg := take_while (fun c => negb (slash_pred u c)) pathtxt) in *.
  destruct (drop_while (fun c => negb (slash_pred u c)) pathtxt) as [|d rest'].
  - (* the last segment: ended by EOF, or by '?' / '#' *)
    rewrite app_nil_r in Happ. rewrite <- Happ in Hsuf |- *.
    apply path_seg_chars; [exact Hsuf|exact Hseg|exact Hqseg|]. cbn [app].
    destruct tail as [|ch t].
    + cbn [after_path] in Hafter. subst r.
      pose proof (seg_equiv u seg false) as Hse; cbn [negb] in Hse; rewrite <- Hse.
      match goal with |- evalf ?m (POk ?u1) =>
        change (evalf m (POk (m_url (mk_m Path u1 [] a b pw (pointer_of input []))))) end.
      apply eval_eof; [reflexivity| |reflexivity].
      rewrite step_path. cbv zeta. rewrite char_at_eof. cbn [is_eof is_none is_c orb]. rewrite andb_false_r. reflexivity.
    + cbn [after_path] in Hafter.
      assert (Hsuf' : is_suffix input (ch :: t)) by (eapply suffix_app; exact Hsuf).
      unfold ov_qh, qh in Htail. apply andb_true_iff in Htail. destruct Htail as [Hov Hch].
      assert (Hsl : (ch =? 47) || is_special u && (ch =? 92) = false).
      { apply orb_true_iff in Hch. destruct Hch as [Hch|Hch]; apply N.eqb_eq in Hch; subst ch; cbn; apply andb_false_r. }
      pose proof (seg_equiv u seg false) as Hse; cbn [negb] in Hse; rewrite <- Hse in Hafter.
      destruct (ch =? 63) eqn:E63.
      * eapply eval_char; [exact Hsuf'|reflexivity|
          rewrite step_path; cbv zeta; rewrite (char_at_suffix _ _ _ Hsuf'), !is_c_some;
          cbn [is_eof is_none orb]; rewrite Hov, E63; cbn [andb orb]; rewrite orb_true_r, Hsl; reflexivity
          |reflexivity|exact Hafter].
      * cbn [orb] in Hch.
        eapply eval_char; [exact Hsuf'|reflexivity|
          rewrite step_path; cbv zeta; rewrite (char_at_suffix _ _ _ Hsuf'), !is_c_some;
          cbn [is_eof is_none orb]; rewrite Hov, E63, Hch; cbn [andb orb]; rewrite orb_true_r, Hsl; reflexivity
          |reflexivity|exact Hafter].
  - (* a segment ended by a slash (or a backslash, special scheme) *)
    rewrite <- Happ in Hsuf |- *. rewrite <- app_assoc in Hsuf |- *.
    apply path_seg_chars; [exact Hsuf|exact Hseg|exact Hqseg|]. cbn [app] in Hsuf |- *.
    assert (Hsuf' : is_suffix input (d :: rest' ++ tail)) by (eapply suffix_app; exact Hsuf).
    specialize (Hhead d rest' eq_refl). apply negb_false_iff in Hhead. apply slash_pred_true in Hhead.
    destruct Hhead as [Hsl Hnq]. unfold qh in Hnq. apply orb_false_iff in Hnq. destruct Hnq as [N63 N35].
    pose proof (seg_equiv u seg true) as Hse; cbn [negb] in Hse; rewrite <- Hse in Hafter.
    eapply eval_char; [exact Hsuf'|reflexivity|
      rewrite step_path; cbv zeta; rewrite (char_at_suffix _ _ _ Hsuf'), !is_c_some;
      cbn [is_eof is_none orb]; rewrite Hsl, N63, N35; cbn [orb]; reflexivity |reflexivity|].
    + cbn [with_pointer m_state m_url m_buffer m_at m_brackets m_pwtoken].
      apply IH; [| | exact Htail | eapply suffix_tail; exact Hsuf' | exact Hafter].
      * assert (Hl : length pathtxt = (length seg + length (d :: rest'))%nat) by (rewrite <- Happ, app_length; reflexivity).
        cbn [length] in Hl. lia.
      * cbn [forallb] in Hqrest. apply andb_true_iff in Hqrest. apply Hqrest.
Qed.

End Machine.

(* ---------- the block lemmas ---------- *)
Definition P_true (c : ctx) (u : url) : Prop := True.

(* Fragment: any override (in particular the hash setter), no side condition *)
Lemma blk_fragment_sound : blk_sound idna blk_fragment Fragment P_true.
Proof.
  intros c input p u r _ H. cbn [blk_fragment eval_flow] in H. apply res_eq_ok_inv in H. subst r.
  cbn [eval_flow flow_url]. intros Hsuf at_ pw.
  exists (POk (set_fragment u (Some (enc_with in_fragment_set p)))). split; [|apply res_eq_ok_refl].
  unfold at_state. rewrite enc_fragment.
  exact (fragment_loop input (c_base c) (c_override c) p u [] [] at_ false pw Hsuf).
Qed.

(* Query: any override (in particular the search setter), no side condition *)
Lemma query_split_app ovb p : fst (query_split ovb p) ++ snd (query_split ovb p) = p.
Proof.
  unfold query_split. destruct ovb; cbn [fst snd]; [apply app_nil_r|].
  unfold break_at, span. cbn [fst snd]. apply take_drop_app.
Qed.
Lemma blk_query_eq c p u :
  blk_query c (Go Query p u) =
  let qr := query_split (has_ov c) p in
  let u' := set_query u (Some (enc_with (if is_special u then in_special_query_set else in_query_set) (fst qr))) in
  match snd qr with [] => Stop (POk u') | _ :: rest' => Go Fragment rest' u' end.
Proof.
  unfold blk_query, query_split. destruct (has_ov c); [reflexivity|].
  destruct (break_at (fun ch : N => ch =? 35) p); reflexivity.
Qed.
Lemma enc_query_set_of u s :
  enc_with (if is_special u then in_special_query_set else in_query_set) s = utf8_percent_encode (query_set_of u) s.
Proof. unfold query_set_of. destruct (is_special u); [apply enc_special_query|apply enc_query]. Qed.

Lemma blk_query_sound : blk_sound idna blk_query Query P_true.
Proof.
  intros c input p u r _ H. rewrite blk_query_eq in H. cbv zeta in H.
  cbn [eval_flow flow_url]. intros Hsuf at_ pw.
  pose proof (query_loop input (c_base c) (c_override c) p u [] [] at_ false pw Hsuf) as L. cbv zeta in L.
  fold (has_ov c) in L. cbn [app] in L. rewrite <- enc_query_set_of in L.
  pose proof (query_split_app (has_ov c) p) as Happ.
  destruct (snd (query_split (has_ov c) p)) as [|y rest'].
  - cbn [eval_flow] in H. apply res_eq_ok_inv in H. subst r.
    eexists. split; [exact L|apply res_eq_ok_refl].
  - cbn [eval_flow flow_url] in H.
    assert (Hs' : is_suffix input rest').
    { rewrite <- Happ in Hsuf. apply suffix_app in Hsuf. eapply suffix_tail. exact Hsuf. }
    destruct (H Hs' at_ pw) as [r' [He Hr]]. exists r'. split; [|exact Hr].
    apply L. exact He.
Qed.

(* OpaquePath: the path of the record is opaque (it is [POpaque []] when the scheme state enters) *)
Definition P_opaque (c : ctx) (u : url) : Prop := exists o, path u = POpaque o.

Lemma blk_opaque_path_sound : blk_sound idna blk_opaque_path OpaquePath P_opaque.
Proof.
  intros c input p u r [o Ho] H. cbn [blk_opaque_path] in H. rewrite Ho in H.
  cbn [eval_flow flow_url]. intros Hsuf at_ pw.
  pose proof (opaque_loop input (c_base c) (c_override c) p u o [] at_ false pw Hsuf) as L. cbv zeta in L.
  rewrite (set_path_same u (POpaque o) Ho) in L. rewrite <- enc_c0_spec in L.
  pose proof (take_drop_app (fun c0 => negb ((c0 =? 63) || (c0 =? 35))) p) as Happ.
  unfold break_at, span in *. cbn [fst snd] in L.
  destruct (drop_while (fun c0 : N => negb ((c0 =? 63) || (c0 =? 35))) p) as [|y rest'].
  - cbn [eval_flow] in H. apply res_eq_ok_inv in H. subst r.
    eexists. split; [exact L|apply res_eq_ok_refl].
  - assert (Hs' : is_suffix input rest').
    { rewrite <- Happ in Hsuf. apply suffix_app in Hsuf. eapply suffix_tail. exact Hsuf. }
    revert H L. destruct (y =? 63); intros H L; cbn [eval_flow flow_url] in H;
      destruct (H Hs' at_ pw) as [r' [He Hr]]; exists r'; (split; [|exact Hr]); apply L; exact He.
Qed.

(* Path: any override (in particular the pathname setter, where '?' and '#' are path text),
   no side condition (an opaque path is left alone by both sides; the lemma starts from the
   empty buffer of [at_state]) *)
Definition path_split (ovb : bool) (p : str) : str * str :=
  if ovb then (p, []) else break_at (fun ch => (ch =? 63) || (ch =? 35)) p.
Lemma path_split_app ovb p : fst (path_split ovb p) ++ snd (path_split ovb p) = p.
Proof.
  unfold path_split. destruct ovb; cbn [fst snd]; [apply app_nil_r|].
  unfold break_at, span. cbn [fst snd]. apply take_drop_app.
Qed.
Lemma blk_path_eq c p u :
  blk_path c (Go Path p u) =
  let qr := path_split (has_ov c) p in
  let u' := parse_path (fst qr) u in
  match snd qr with
  | [] => Stop (POk u')
  | ch :: rest' => if ch =? 63 then Go Query rest' u' else Go Fragment rest' u'
  end.
Proof.
  unfold blk_path, path_split. destruct (has_ov c); [reflexivity|].
  destruct (break_at (fun ch : N => (ch =? 63) || (ch =? 35)) p); reflexivity.
Qed.
Lemma forallb_const_true (s : str) (f : N -> bool) : (forall x, f x = true) -> forallb f s = true.
Proof. intro H. induction s as [|x s IH]; [reflexivity|]. cbn [forallb]. rewrite H, IH. reflexivity. Qed.

Lemma blk_path_sound : blk_sound idna blk_path Path P_true.
Proof.
  intros c input p u r _ H. rewrite blk_path_eq in H. cbv zeta in H.
  cbn [eval_flow flow_url]. intros Hsuf at_ pw. unfold at_state.
  set (base := c_base c) in *. set (ov := c_override c) in *.
  pose proof (path_split_app (has_ov c) p) as Happ.
  assert (Hq : forallb (fun x => negb (ov_qh ov x)) (fst (path_split (has_ov c) p)) = true).
  { unfold path_split, ov_qh, has_ov. fold ov. destruct (is_some ov); cbn [fst negb andb].
    - apply forallb_const_true. reflexivity.
    - unfold break_at, span. cbn [fst]. apply (take_while_all (fun c0 => negb (qh c0))). }
  assert (Htail : match snd (path_split (has_ov c) p) with [] => True | ch :: _ => ov_qh ov ch = true end).
  { unfold path_split, ov_qh, has_ov. fold ov. destruct (is_some ov); cbn [snd negb andb]; [exact I|].
    unfold break_at, span. cbn [snd].
    destruct (drop_while (fun c0 : N => negb ((c0 =? 63) || (c0 =? 35))) p) as [|ch t] eqn:Ed; [exact I|].
    apply drop_while_head in Ed. apply negb_false_iff in Ed. exact Ed. }
  rewrite <- Happ in Hsuf |- *.
  destruct (snd (path_split (has_ov c) p)) as [|ch rest'].
  - cbn [eval_flow] in H. apply res_eq_ok_inv in H. subst r.
    eexists. split; [|apply res_eq_ok_refl].
    eapply path_loop; [apply Nat.lt_succ_diag_r|exact Hq|exact Htail|exact Hsuf|].
    cbn [after_path]. reflexivity.
  - assert (Hs' : is_suffix input rest') by (apply suffix_app in Hsuf; eapply suffix_tail; exact Hsuf).
    revert H. destruct (ch =? 63) eqn:E63; intro H; cbn [eval_flow flow_url] in H;
      destruct (H Hs' at_ pw) as [r' [He Hr]]; exists r'; (split; [|exact Hr]);
      (eapply path_loop; [apply Nat.lt_succ_diag_r|exact Hq|exact Htail|exact Hsuf|]);
      cbn [after_path]; rewrite E63; exact He.
Qed.

(* PathStart: any override (in particular the pathname setter), no side condition *)
Lemma match_slash_default {A} (x : N) (p' : str) (a b : A) :
  x <> 47 -> x <> 92 ->
  match x with 92 => a | 47 => a | _ => b end = b.
Proof.
  intros H1 H2. destruct x as [|q]; [reflexivity|].
  do 7 (destruct q as [q|q|]; try reflexivity; try (exfalso; congruence)).
Qed.

Lemma blk_path_start_sound : blk_sound idna blk_path_start PathStart P_true.
Proof.
  intros c input p u r _ H. cbn [eval_flow flow_url]. intros Hsuf at_ pw.
  cbn [blk_path_start] in H.
  set (base := c_base c) in *. set (ov := c_override c) in *.
  destruct (is_special u) eqn:Hsp.
  - (* special: skip one slash or backslash *)
    destruct p as [|x p'].
    + cbn [eval_flow flow_url] in H. destruct (H Hsuf at_ pw) as [r' [He Hr]]. exists r'. split; [|exact Hr]. unfold at_state in *.
      eapply eval_dec; [exact Hsuf|reflexivity|rewrite step_path_start; cbv zeta; rewrite Hsp, char_at_eof; reflexivity|reflexivity|exact He].
    + assert (Hs' : is_suffix input p') by (eapply suffix_tail; exact Hsuf).
      destruct (N.eqb_spec x 47) as [E47|E47]; [|destruct (N.eqb_spec x 92) as [E92|E92]].
      * subst x. cbn [eval_flow flow_url] in H. destruct (H Hs' at_ pw) as [r' [He Hr]]. exists r'. split; [|exact Hr]. unfold at_state in *.
        eapply eval_char; [exact Hsuf|reflexivity|rewrite step_path_start; cbv zeta; rewrite Hsp, (char_at_suffix _ _ _ Hsuf); reflexivity|reflexivity|exact He].
      * subst x. cbn [eval_flow flow_url] in H. destruct (H Hs' at_ pw) as [r' [He Hr]]. exists r'. split; [|exact Hr]. unfold at_state in *.
        eapply eval_char; [exact Hsuf|reflexivity|rewrite step_path_start; cbv zeta; rewrite Hsp, (char_at_suffix _ _ _ Hsuf); reflexivity|reflexivity|exact He].
      * assert (Hm : match x with 92 => Go Path p' u | 47 => Go Path p' u | _ => Go Path (x :: p') u end = Go Path (x :: p') u)
          by (apply (match_slash_default x p'); assumption).
        assert (H' : eval_flow idna input base ov (Go Path (x :: p') u) r).
        { revert H. destruct x as [|q]; [exact (fun h => h)|].
          do 7 (destruct q as [q|q|]; try exact (fun h => h); try (exfalso; congruence)). }
        clear H Hm. cbn [eval_flow flow_url] in H'. destruct (H' Hsuf at_ pw) as [r' [He Hr]]. exists r'. split; [|exact Hr]. unfold at_state in *.
        eapply eval_dec; [exact Hsuf|reflexivity|rewrite step_path_start; cbv zeta; rewrite Hsp, (char_at_suffix _ _ _ Hsuf), !is_c_some; apply N.eqb_neq in E47, E92; rewrite E47, E92; reflexivity|reflexivity|exact He].
  - destruct p as [|x p'].
    + (* EOF *)
      cbn [eval_flow] in H. apply res_eq_ok_inv in H. subst r.
      eexists. split; [|apply res_eq_ok_refl].
      unfold at_state.
      destruct (has_ov c && is_none (uhost u)) eqn:Ea.
      * change (ser_append_segment u []) with (m_url (mk_m PathStart (path_append u []) [] at_ false pw (pointer_of input []))).
        apply eval_eof; [reflexivity| |reflexivity].
        rewrite step_path_start. cbv zeta. rewrite Hsp, char_at_eof. cbn [is_c is_eof is_none negb andb].
        rewrite !andb_false_r. fold ov. unfold has_ov in Ea. fold ov in Ea. rewrite Ea. reflexivity.
      * change u with (m_url (mk_m PathStart u [] at_ false pw (pointer_of input []))) at 2.
        apply eval_eof; [reflexivity| |reflexivity].
        rewrite step_path_start. cbv zeta. rewrite Hsp, char_at_eof. cbn [is_c is_eof is_none negb andb].
        rewrite !andb_false_r. unfold has_ov in Ea. fold ov in Ea. rewrite Ea. reflexivity.
    + assert (Hs' : is_suffix input p') by (eapply suffix_tail; exact Hsuf).
      pose proof (char_at_suffix _ _ _ Hsuf) as Hc.
      unfold has_ov in H. fold ov in H.
      destruct (negb (is_some ov)) eqn:Hov; cbn [negb] in H.
      * destruct (x =? 63) eqn:E63; [|destruct (x =? 35) eqn:E35; [|destruct (x =? 47) eqn:E47]];
          cbn [eval_flow flow_url] in H.
        -- destruct (H Hs' at_ pw) as [r' [He Hr]]. exists r'. split; [|exact Hr]. unfold at_state in *.
           eapply eval_char; [exact Hsuf|reflexivity|rewrite step_path_start; cbv zeta; rewrite Hsp, Hc, !is_c_some, Hov, E63; reflexivity|reflexivity|exact He].
        -- destruct (H Hs' at_ pw) as [r' [He Hr]]. exists r'. split; [|exact Hr]. unfold at_state in *.
           eapply eval_char; [exact Hsuf|reflexivity|rewrite step_path_start; cbv zeta; rewrite Hsp, Hc, !is_c_some, Hov, E63, E35; reflexivity|reflexivity|exact He].
        -- destruct (H Hs' at_ pw) as [r' [He Hr]]. exists r'. split; [|exact Hr]. unfold at_state in *.
           eapply eval_char; [exact Hsuf|reflexivity|rewrite step_path_start; cbv zeta; rewrite Hsp, Hc, !is_c_some, Hov, E63, E35, E47; reflexivity|reflexivity|exact He].
        -- destruct (H Hsuf at_ pw) as [r' [He Hr]]. exists r'. split; [|exact Hr]. unfold at_state in *.
           eapply eval_dec; [exact Hsuf|reflexivity|rewrite step_path_start; cbv zeta; rewrite Hsp, Hc, !is_c_some, Hov, E63, E35, E47; reflexivity|reflexivity|exact He].
      * destruct (x =? 47) eqn:E47; cbn [eval_flow flow_url] in H.
        -- destruct (H Hs' at_ pw) as [r' [He Hr]]. exists r'. split; [|exact Hr]. unfold at_state in *.
           eapply eval_char; [exact Hsuf|reflexivity|rewrite step_path_start; cbv zeta; rewrite Hsp, Hc, !is_c_some, Hov, E47; reflexivity|reflexivity|exact He].
        -- destruct (H Hsuf at_ pw) as [r' [He Hr]]. exists r'. split; [|exact Hr]. unfold at_state in *.
           eapply eval_dec; [exact Hsuf|reflexivity|rewrite step_path_start; cbv zeta; rewrite Hsp, Hc, !is_c_some, Hov, E47; reflexivity|reflexivity|exact He].
Qed.

End Blocks.

Print Assumptions blk_path_start_sound.
Print Assumptions blk_path_sound.
Print Assumptions blk_opaque_path_sound.
Print Assumptions blk_query_sound.
Print Assumptions blk_fragment_sound.
Print Assumptions path_drive_buffer.
