(* C03 (and C05): the in-place editing of the stored serialization by url_serializer / url_setter
   (Impl/Serializer.v, tied to the real classes by the `ser` command on every run) refines edits
   of the list of 11 pieces.  [conc ps n f c] is the concrete representation (string + 11 offsets
   with the real 0-encoding of the parts after the n-th) of the piece list [ps]; [PW ps n] says that
   ps has 11 pieces, a non-empty scheme, and only empty pieces from n on.

   Statements only; proofs in Proofs/SerializerProofs.v. *)
From Upa Require Import Base.Prelude Spec.Ip Spec.Url Impl.Repr Impl.Serializer.
From Upa Require Import Proofs.ReprProofs Proofs.SerializerProofs.
From Coq Require Import String.
From Coq Require Import List.
Import ListNotations.
Local Open Scope N_scope.
Local Open Scope list_scope.

(* url_serializer::replace_part(last_pt, str, len, first_pt, len0): the string is spliced at the right
   place and EVERY one of the 11 offsets is re-based (the ones before first_pt stay, first_pt..last_pt-1
   become b + len0, the later non-zero ones move by len - l, the 0-tail stays 0) - i.e. the result is
   the representation of the piece list in which pieces first_pt..last_pt are replaced; and the size_t
   subtraction part_end_[last_pt] - b does not wrap *)
Theorem C03_replace_part : forall ps n f c first last s len0,
  PW ps n -> (first <= last)%nat -> (last < n)%nat ->
  ((first < last)%nat -> len0 <= len s) ->
  replace_part (conc ps n f c) last s first len0 = conc (splice ps first last s len0) n f c /\
  part_pos (conc ps n f c) first <= en (conc ps n f c) last.
Proof. exact replace_part_conc. Qed.

(* start_part(new_pt), append, save_part on an object whose last written part is m-1 >= HOST_START: the
   offsets of the skipped parts are filled, the separator is written, the text appended, the end fixed *)
Theorem C03_write_last_part : forall ps m f c new_pt v s0,
  PW ps m -> (5 <= m)%nat -> (m <= new_pt <= 10)%nat ->
  s_r s0 = conc ps m f c -> s_last s0 = (m - 1)%nat ->
  let s1 := ser_save_part (do_append (ser_start_part s0 new_pt) v) in
  s_r s1 = conc (setp ps new_pt (sepc new_pt ++ v)) (S new_pt) f c /\ s_last s1 = new_pt.
Proof. exact start_append_save. Qed.

(* the port / search setters when other text follows the part: url_setter writes ":" / "?" and the value
   into strp_ and splices it in; strp_ is empty again afterwards *)
Theorem C03_setter_splice_port_query : forall ps n f c file k v,
  PW ps n -> (k = P_PORT \/ k = P_QUERY) -> (k < n)%nat ->
  pre (S k) ps < len (concat ps) ->
  (k = P_PORT -> v <> []) ->
  let s1 := run true (init_sst (conc ps n f c) file) [OStartPart k; OAppend v; OSavePart] in
  s_r s1 = conc (setp ps k (sepc k ++ v)) n f c /\ s_strp s1 = [].
Proof. exact setter_splice_simple. Qed.

(* clear_part (port(""), search(""), hash("")): the piece becomes empty, its not-null bit is cleared,
   nothing else changes; a part that was never written stays as it is *)
Theorem C03_setter_clear_part : forall ps n f c file k,
  PW ps n -> (1 <= k <= 10)%nat ->
  s_r (run true (init_sst (conc ps n f c) file) [OClearPart k]) =
  if (k <? n)%nat then conc (setp ps k []) n (N.ldiff f (N.shiftl 1 (N.of_nat k))) c else conc ps n f c.
Proof. exact setter_clear_part. Qed.

(* the same setters when nothing follows the part: the part exists and is the last text of the URL (url_setter
   truncates the string, zeroes the later offsets and rewrites the part in place) or it was never written
   (find_last_part, fill_parts_offset) *)
Theorem C03_setter_write_port_query_fragment : forall ps n f c file k v,
  PW ps n -> (6 <= n)%nat -> (k = P_PORT \/ k = P_QUERY \/ k = P_FRAGMENT) ->
  (forall j, (k < j)%nat -> nth j ps [] = []) ->
  let s1 := run true (init_sst (conc ps n f c) file) [OStartPart k; OAppend v; OSavePart] in
  s_r s1 = conc (setp ps k (sepc k ++ v)) (S k) f c /\ s_last s1 = k.
Proof. exact setter_write_simple. Qed.

(* whichever of the three ways is taken: up to the freedom the property grants for the offsets of trailing unset
   parts (norm_tail: a 0 repeats the previous offset - the normal form the correspondence check compares) *)
Theorem C03_setter_port_query_fragment : forall ps n f c file k v,
  PW ps n -> (6 <= n)%nat -> (k = P_PORT \/ k = P_QUERY \/ k = P_FRAGMENT) -> (k = P_PORT -> v <> []) ->
  norm_tail (s_r (run true (init_sst (conc ps n f c) file) [OStartPart k; OAppend v; OSavePart])) =
  conc (setp ps k (sepc k ++ v)) 11 f c.
Proof. exact setter_simple_any. Qed.

(* username / password: the "@" rules of url_setter::save_part ("@" appears with the first credential, disappears
   with the last, a lone ":" is dropped) *)
Theorem C03_setter_username_pieces : forall ps n f c file v,
  PW ps n -> (6 <= n)%nat -> nth P_HOST ps [] <> [] ->
  let s1 := run true (init_sst (conc ps n f c) file) [OStartPart P_USERNAME; OAppend v; OSavePart] in
  s_r s1 = conc (username_pieces ps v) n f c /\ s_strp s1 = [].
Proof. exact setter_username. Qed.

Theorem C03_setter_password_pieces : forall ps n f c file v,
  PW ps n -> (6 <= n)%nat -> nth P_HOST ps [] <> [] ->
  let s1 := run true (init_sst (conc ps n f c) file) [OStartPart P_PASSWORD; OAppend v; OSavePart] in
  s_r s1 = conc (password_pieces ps v) n f c /\ s_strp s1 = [].
Proof. exact setter_password. Qed.

(* ---- record level: the operation sequence a setter performs, run on the representation [repr_of u] of a record
   (Impl/Repr.v; compared with the real objects on every state line of every stream), gives the representation of
   the record the Standard's setter produces ---- *)

(* hash: fragment state with state override = start_part(FRAGMENT), value, save_part, set_flag(FRAGMENT_FLAG) *)
Theorem C03_hash_setter_repr : forall u file f, scheme u <> [] ->
  norm_tail (s_r (run true (init_sst (repr_of u) file) [OStartPart P_FRAGMENT; OAppend f; OSavePart; OSetFlag 1024])) =
  repr_of (set_fragment u (Some f)).
Proof. exact hash_setter_repr. Qed.

Theorem C03_search_setter_repr : forall u file q, scheme u <> [] ->
  norm_tail (s_r (run true (init_sst (repr_of u) file) [OStartPart P_QUERY; OAppend q; OSavePart; OSetFlag 512])) =
  repr_of (set_query u (Some q)).
Proof. exact search_setter_repr. Qed.

Theorem C03_port_setter_repr : forall u file p, scheme u <> [] -> is_some (uhost u) = true ->
  norm_tail (s_r (run true (init_sst (repr_of u) file) [OStartPart P_PORT; OAppend (dec_str p); OSavePart; OSetFlag 64])) =
  repr_of (set_port u (Some p)).
Proof. exact port_setter_repr. Qed.

Theorem C03_username_setter_repr : forall u file v,
  scheme u <> [] -> is_some (uhost u) = true -> nth P_HOST (pieces u) [] <> [] ->
  s_r (run true (init_sst (repr_of u) file) [OStartPart P_USERNAME; OAppend v; OSavePart]) = repr_of (set_username u v).
Proof. exact username_setter_repr. Qed.

Theorem C03_password_setter_repr : forall u file v,
  scheme u <> [] -> is_some (uhost u) = true -> nth P_HOST (pieces u) [] <> [] ->
  s_r (run true (init_sst (repr_of u) file) [OStartPart P_PASSWORD; OAppend v; OSavePart]) = repr_of (set_password u v).
Proof. exact password_setter_repr. Qed.

(* host / hostname setter on a URL whose host is not null (both ways: the host is the last text of the URL, or
   text follows it): hostStart, the serialized host, hostDone(host type) - the host text, the host-type bits of
   flags_ and nothing else change; no "/." prefix appears *)
Theorem C03_host_setter_repr : forall u file H, scheme u <> [] -> is_some (uhost u) = true ->
  norm_tail (s_r (run true (init_sst (repr_of u) file)
                    [OHostStart; OAppend (host_serialize H); OHostDone (host_type_num H)])) =
  repr_of (set_host u (Some H)).
Proof. exact host_setter_repr. Qed.

(* host / hostname setter on a URL whose host is null (a:/p -> a://h/p, a:/.//p -> a://h//p): "://" is inserted
   (pieces SCHEME_SEP..HOST are replaced at once with len0 = 3), the "/." prefix, if there is one, is removed *)
Theorem C03_host_setter_null_repr : forall u file H,
  scheme u <> [] -> uhost u = None -> username u = [] -> password u = [] -> port u = None ->
  path_serialize u <> [] ->
  s_r (run true (init_sst (repr_of u) file)
         [OHostStart; OAppend (host_serialize H); OHostDone (host_type_num H)]) =
  repr_of (set_host u (Some H)).
Proof. exact host_setter_null_repr. Qed.

(* protocol setter: start_scheme, the new scheme, save_scheme - piece 0 is replaced, every later offset moves by the
   difference of the lengths, the cached is_file_scheme() follows the new scheme *)
Theorem C03_setter_protocol_pieces : forall ps n f c file sch,
  PW ps n -> sch <> [] ->
  let s1 := run true (init_sst (conc ps n f c) file) [OStartScheme; OAppend sch; OSaveScheme] in
  s_r s1 = conc (setp ps 0 sch) n f c /\ s_file s1 = is_file_str sch.
Proof. exact setter_protocol. Qed.

(* hash("") / search("") on a URL whose path is a list, port(""): clear_part (and the strip step, which does nothing
   when the path is not opaque) *)
Theorem C03_hash_clear_repr : forall u file, scheme u <> [] -> has_opaque_path u = false ->
  s_r (run true (init_sst (repr_of u) file) [OClearPart P_FRAGMENT; OStrip]) = repr_of (set_fragment u None).
Proof. exact hash_clear_repr. Qed.

Theorem C03_search_clear_repr : forall u file, scheme u <> [] -> has_opaque_path u = false ->
  s_r (run true (init_sst (repr_of u) file) [OClearPart P_QUERY; OStrip]) = repr_of (set_query u None).
Proof. exact search_clear_repr. Qed.

Theorem C03_port_clear_repr : forall u file, scheme u <> [] -> is_some (uhost u) = true ->
  s_r (run true (init_sst (repr_of u) file) [OClearPart P_PORT]) = repr_of (set_port u None).
Proof. exact port_clear_repr. Qed.

(* pathname setter.  What path_start_state / path_state do with state override is a sequence of "append a segment"
   (start_path_segment, text, save_path_segment), "append the empty segment" and "shorten" (a ".." segment) followed by
   commit_path.  [pinterp] is the Standard's reading of such a sequence on the segment list ([shorten_segs] = "shorten
   a url's path", with the file-scheme drive-letter exception).  For EVERY such sequence: strp_ / path_seg_end_ follow
   the segment list, commit_path fills the offsets up to PATH, splices the path in, sets the segment counter and
   inserts or removes the "/." prefix - the result is the representation of the piece list with pieces PATH_PREFIX and
   PATH replaced, and at record level the representation of the record with the new path *)
Theorem C03_pathname_pieces : forall ps n f c file l,
  PW ps n -> (nth P_PATH_PREFIX ps [] = [] \/ nth P_PATH_PREFIX ps [] = [47; 46]) ->
  let segs := fold_left (pinterp file) l [] in
  s_r (run true (init_sst (conc ps n f c) file) (flat_map cops l ++ [OCommitPath])) =
  conc (setp (setp ps P_PATH (pstr segs)) P_PATH_PREFIX (new_prefix f segs)) (Nat.max n 9) f (N.of_nat (length segs)).
Proof. exact pathname_conc. Qed.

Theorem C03_pathname_setter_repr : forall u file l, scheme u <> [] -> has_opaque_path u = false ->
  let segs := fold_left (pinterp file) l [] in
  no_lead_slash segs ->
  s_r (run true (init_sst (repr_of u) file) (flat_map cops l ++ [OCommitPath])) = repr_of (set_path u (PList segs)).
Proof. exact pathname_setter_repr. Qed.

(* pathname "/a/../b/" on non-spec:/x (null host): segments b, "" ; pathname "//x" on the same URL gets the "/." prefix *)
Example C03_pathname_example :
  let u := mkurl (lit "non-spec") [] [] None None (PList [lit "x"]) None None in
  scheme u <> [] /\ has_opaque_path u = false /\
  r_norm (s_r (run true (init_sst (repr_of u) false) (flat_map cops [PPush (lit "a"); PShorten; PPush (lit "b"); PEmpty] ++ [OCommitPath])))
    = lit "non-spec:/b/" /\
  r_norm (s_r (run true (init_sst (repr_of u) false) (flat_map cops [PEmpty; PPush (lit "x")] ++ [OCommitPath]))) = lit "non-spec:/.//x".
Proof. cbv zeta. repeat split; try discriminate; vm_compute; reflexivity. Qed.

(* potentially_strip_trailing_spaces_from_an_opaque_path: the string loses the trailing spaces of the path, every
   offset from PATH on becomes the new length; at record level hash("") on a URL with an opaque path and no query *)
Theorem C03_strip_pieces : forall ps n f c s A a,
  PW ps n -> (9 <= n)%nat -> s_r s = conc ps n f c ->
  N.testbit f 11 = true -> N.testbit f 10 = false -> N.testbit f 9 = false ->
  concat (firstn 8 ps) = A ++ [a] -> (a =? 32) = false ->
  nth 9 ps [] = [] -> nth 10 ps [] = [] ->
  s_r (do_strip s) = conc (setp ps P_PATH (strip_trailing_spaces (nth 8 ps []))) n f c.
Proof. exact strip_conc. Qed.

Theorem C03_hash_clear_opaque_repr : forall u file P,
  scheme u <> [] -> uhost u = None -> path u = POpaque P -> query u = None ->
  s_r (run true (init_sst (repr_of u) file) [OClearPart P_FRAGMENT; OStrip]) =
  repr_of (potentially_strip (set_fragment u None)).
Proof. exact hash_clear_opaque_repr. Qed.

Theorem C03_protocol_setter_repr : forall u file sch, scheme u <> [] -> sch <> [] ->
  let s1 := run true (init_sst (repr_of u) file) [OStartScheme; OAppend sch; OSaveScheme] in
  s_r s1 = repr_of (set_scheme u sch) /\ s_file s1 = is_file_str sch.
Proof. exact protocol_setter_repr. Qed.

(* non-vacuity of the record-level premises, and the theorems evaluated on http://h/p: username "u", then hash "f" *)
Example C03_record_example :
  let u := mkurl (lit "http") [] [] (Some (HDomain (lit "h"))) None (PList [lit "p"]) None None in
  scheme u <> [] /\ is_some (uhost u) = true /\ nth P_HOST (pieces u) [] <> [] /\
  r_norm (s_r (run true (init_sst (repr_of u) false) [OStartPart P_USERNAME; OAppend (lit "u"); OSavePart])) = lit "http://u@h/p" /\
  r_norm (s_r (run true (init_sst (repr_of u) false) [OStartPart P_FRAGMENT; OAppend (lit "f"); OSavePart; OSetFlag 1024])) = lit "http://h/p#f".
Proof. cbv zeta. repeat split; try discriminate; vm_compute; reflexivity. Qed.

(* non-vacuity: the pieces of http://h/p?q#f are a well-formed piece list, and the representation the
   real object has (4,7,7,7,7,8,8,8,10,12,14) is its [conc] *)
Example C03_pieces_example :
  let ps := [lit "http"; lit "://"; []; []; []; lit "h"; []; []; lit "/p"; lit "?q"; lit "#f"] in
  PW ps 11 /\ r_ends (conc ps 11 0 0) = [4; 7; 7; 7; 7; 8; 8; 8; 10; 12; 14] /\
  r_norm (replace_part (conc ps 11 0 0) 9 (lit "?xyz") 9 0) = lit "http://h/p?xyz#f" /\
  r_ends (replace_part (conc ps 11 0 0) 9 (lit "?xyz") 9 0) = [4; 7; 7; 7; 7; 8; 8; 8; 10; 14; 16].
Proof.
  cbv zeta. split; [|vm_compute; auto].
  split; try reflexivity; try (cbn; lia).
  - cbn. discriminate.
  - intros k Hk. do 11 (destruct k as [|k]; [lia|]). destruct k; reflexivity.
Qed.

Print Assumptions C03_replace_part.
Print Assumptions C03_write_last_part.
Print Assumptions C03_setter_splice_port_query.
Print Assumptions C03_setter_clear_part.
Print Assumptions C03_setter_write_port_query_fragment.
Print Assumptions C03_setter_port_query_fragment.
Print Assumptions C03_setter_username_pieces.
Print Assumptions C03_setter_password_pieces.
Print Assumptions C03_hash_setter_repr.
Print Assumptions C03_search_setter_repr.
Print Assumptions C03_port_setter_repr.
Print Assumptions C03_username_setter_repr.
Print Assumptions C03_password_setter_repr.
Print Assumptions C03_host_setter_repr.
Print Assumptions C03_host_setter_null_repr.
Print Assumptions C03_setter_protocol_pieces.
Print Assumptions C03_hash_clear_repr.
Print Assumptions C03_search_clear_repr.
Print Assumptions C03_port_clear_repr.
Print Assumptions C03_pathname_pieces.
Print Assumptions C03_pathname_setter_repr.
Print Assumptions C03_pathname_example.
Print Assumptions C03_strip_pieces.
Print Assumptions C03_hash_clear_opaque_repr.
Print Assumptions C03_protocol_setter_repr.
Print Assumptions C03_record_example.
Print Assumptions C03_pieces_example.
