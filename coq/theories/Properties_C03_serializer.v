(* C03 (and C05): the in-place editing of the stored serialization by url_serializer / url_setter
   (Impl/Serializer.v, tied to the real classes by the `ser` command on every run) refines edits
   of the list of 11 pieces.  [conc ps n f c] is the concrete representation (string + 11 offsets
   with the real 0-encoding of the parts after the n-th) of the piece list [ps]; [PW ps n] says that
   ps has 11 pieces, a non-empty scheme, and only empty pieces from n on.

   Statements only; proofs in Proofs/SerializerProofs.v. *)
From Upa Require Import Base.Prelude Spec.Ip Spec.Url Impl.Repr Impl.Serializer.
From Upa Require Import Proofs.ReprProofs Proofs.SerializerProofs.
From Coq Require Import String.
From Coq Require Import List.
Import ListNotations.
Local Open Scope N_scope.
Local Open Scope list_scope.

(* url_serializer::replace_part(last_pt, str, len, first_pt, len0): the string is spliced at the right
   place and EVERY one of the 11 offsets is re-based (the ones before first_pt stay, first_pt..last_pt-1
   become b + len0, the later non-zero ones move by len - l, the 0-tail stays 0) - i.e. the result is
   the representation of the piece list in which pieces first_pt..last_pt are replaced; and the size_t
   subtraction part_end_[last_pt] - b does not wrap *)
Theorem C03_replace_part : forall ps n f c first last s len0,
  PW ps n -> (first <= last)%nat -> (last < n)%nat ->
  ((first < last)%nat -> len0 <= len s) ->
  replace_part (conc ps n f c) last s first len0 = conc (splice ps first last s len0) n f c /\
  part_pos (conc ps n f c) first <= en (conc ps n f c) last.
Proof. exact replace_part_conc. Qed.

(* start_part(new_pt), append, save_part on an object whose last written part is m-1 >= HOST: the
   offsets of the skipped parts are filled, the separator is written, the text appended, the end fixed *)
Theorem C03_write_last_part : forall ps m f c new_pt v s0,
  PW ps m -> (6 <= m)%nat -> (m <= new_pt <= 10)%nat ->
  s_r s0 = conc ps m f c -> s_last s0 = (m - 1)%nat ->
  let s1 := ser_save_part (do_append (ser_start_part s0 new_pt) v) in
  s_r s1 = conc (setp ps new_pt (sepc new_pt ++ v)) (S new_pt) f c /\ s_last s1 = new_pt.
Proof. exact start_append_save. Qed.

(* the port / search setters when other text follows the part: url_setter writes ":" / "?" and the value
   into strp_ and splices it in; strp_ is empty again afterwards *)
Theorem C03_setter_splice_port_query : forall ps n f c file k v,
  PW ps n -> (k = P_PORT \/ k = P_QUERY) -> (k < n)%nat ->
  pre (S k) ps < len (concat ps) ->
  (k = P_PORT -> v <> []) ->
  let s1 := run true (init_sst (conc ps n f c) file) [OStartPart k; OAppend v; OSavePart] in
  s_r s1 = conc (setp ps k (sepc k ++ v)) n f c /\ s_strp s1 = [].
Proof. exact setter_splice_simple. Qed.

(* clear_part (port(""), search(""), hash("")): the piece becomes empty, its not-null bit is cleared,
   nothing else changes; a part that was never written stays as it is *)
Theorem C03_setter_clear_part : forall ps n f c file k,
  PW ps n -> (1 <= k <= 10)%nat ->
  s_r (run true (init_sst (conc ps n f c) file) [OClearPart k]) =
  if (k <? n)%nat then conc (setp ps k []) n (N.ldiff f (N.shiftl 1 (N.of_nat k))) c else conc ps n f c.
Proof. exact setter_clear_part. Qed.

(* non-vacuity: the pieces of http://h/p?q#f are a well-formed piece list, and the representation the
   real object has (4,7,7,7,7,8,8,8,10,12,14) is its [conc] *)
Example C03_pieces_example :
  let ps := [lit "http"; lit "://"; []; []; []; lit "h"; []; []; lit "/p"; lit "?q"; lit "#f"] in
  PW ps 11 /\ r_ends (conc ps 11 0 0) = [4; 7; 7; 7; 7; 8; 8; 8; 10; 12; 14] /\
  r_norm (replace_part (conc ps 11 0 0) 9 (lit "?xyz") 9 0) = lit "http://h/p?xyz#f" /\
  r_ends (replace_part (conc ps 11 0 0) 9 (lit "?xyz") 9 0) = [4; 7; 7; 7; 7; 8; 8; 8; 10; 14; 16].
Proof.
  cbv zeta. split; [|vm_compute; auto].
  split; try reflexivity; try (cbn; lia).
  - cbn. discriminate.
  - intros k Hk. do 11 (destruct k as [|k]; [lia|]). destruct k; reflexivity.
Qed.

Print Assumptions C03_replace_part.
Print Assumptions C03_write_last_part.
Print Assumptions C03_setter_splice_port_query.
Print Assumptions C03_setter_clear_part.
Print Assumptions C03_pieces_example.
