(* C01 (and C05): the path part of a PARSE, as url_serializer writes it (Impl/Serializer.v, serializer mode:
   start_path_segment / save_path_segment write directly into norm_url_, shorten_path works on the stored string
   through get_shorten_path / get_path_rem_last / get_path_first_string, commit_path adjusts the "/." prefix).

   For an object whose last written part is m-1 (HOST_START..PATH_PREFIX), whose path is a list, and EVERY sequence of
   "append a segment", "append the empty segment", "shorten" (segments without '/', as the parser produces them)
   followed by commit_path: up to the trailing-offset freedom the result is the representation of the piece list
   whose PATH piece is the text of the segment list the Standard computes ([pinterp]: append / shorten a url's path
   with the file drive-letter exception) and whose PATH_PREFIX piece is "/." exactly when the host is null, there
   are at least two segments and the first one is empty; the segment counter is the number of segments.

   Statement only; proof in Proofs/SerializerParse.v.  The model is tied to the real class by the `ser` command
   (serops stream, mode S: parses from components with shorten_path in between). *)
From Upa Require Import Base.Prelude Spec.Ip Spec.Url Impl.Repr Impl.Serializer.
From Upa Require Import Proofs.ReprProofs Proofs.SerializerProofs Proofs.SerializerParse Proofs.SerializerEmit Proofs.SerializerEmitNull.
Local Open Scope N_scope.

Theorem C01_ser_pathname_pieces : forall ps0 m f,
  PW ps0 m -> (5 <= m <= 8)%nat -> N.testbit f 11 = false -> nth 7 ps0 [] = [] ->
  forall l s file,
  s_r s = conc ps0 m f 0 -> s_last s = (m - 1)%nat -> s_file s = file -> pushed_ok l ->
  let segs := fold_left (pinterp file) l [] in
  norm_tail (s_r (run false s (flat_map cops l ++ [OCommitPath]))) =
  conc (setp (setp ps0 8 (pstr segs)) 7 (new_prefix f segs)) 11 f (N.of_nat (length segs)).
Proof. exact ser_pathname_pieces. Qed.

(* shorten_path on the stored string alone: the Standard's "shorten a url's path" on the segment list *)
Theorem C01_ser_shorten : forall s ps f segs,
  SP s ps f segs -> Forall no47 segs -> N.testbit f 11 = false ->
  SP (ser_shorten_path s) (setp ps 8 (pstr (shorten_segs (s_file s) segs))) f (shorten_segs (s_file s) segs) /\
  s_file (ser_shorten_path s) = s_file s.
Proof. exact ser_path_shorten. Qed.

(* the authority part of a parse - scheme, "//", credentials (none / user / user:password / :password), host: the
   "//", ":", "@" bookkeeping of start_part from SCHEME, USERNAME and PASSWORD *)
Theorem C01_ser_authority : forall sc us pw h ht,
  let s1 := run false empty_sst (auth_ops sc us pw h ht) in
  s_r s1 = conc (auth_pieces sc us pw h) 6 (host_flags 269 ht) 0 /\ s_last s1 = P_HOST /\ s_file s1 = is_file_str sc.
Proof. exact ser_authority. Qed.

(* the whole write sequence of a parse, for every record with a host and a list path (segments without '/'):
   scheme, "//", credentials, host, [port], the segments, commit_path, [query], [fragment], run through the model of
   url_serializer from the EMPTY object, give - up to the trailing-offset freedom - exactly repr_of u: the string,
   the 11 offsets, the flag word (host type, not-null bits) and the segment counter.  This is what Impl/Repr.v says
   repr_of is ("the representation url_serializer leaves after a fresh parse"), and what the repr= field of every
   state line of every stream compares the real objects with. *)
Theorem C01_emit_repr : forall sc us pw H po segs q fr,
  sc <> [] -> Forall no47 segs ->
  let u := mkurl sc us pw (Some H) po (PList segs) q fr in
  norm_tail (s_r (run false empty_sst (emit_ops sc us pw (host_serialize H) (host_type_num H) po segs q fr))) = repr_of u.
Proof. exact emit_repr. Qed.

(* the same for records with a NULL host and a non-empty list path (a:/p, a:/.//p): the first segment is written
   straight after the scheme's ':', commit_path inserts the "/." prefix exactly when the path starts with "//" *)
Theorem C01_emit_null_repr : forall sc seg0 segs q fr,
  sc <> [] -> Forall no47 (seg0 :: segs) ->
  let u := mkurl sc [] [] None None (PList (seg0 :: segs)) q fr in
  norm_tail (s_r (run false empty_sst (emit_null_ops sc seg0 segs q fr))) = repr_of u.
Proof. exact emit_null_repr. Qed.

(* non-vacuity, evaluated: after "http://h" the path /a/../b/ ; file: the drive letter survives ".." *)
Example C01_ser_path_example :
  let ps0 := [[104;116;116;112]; [58;47;47]; []; []; []; [104]; []; []; []; []; []] in
  let s := mk_sst (conc ps0 6 (269 + 32 + 2 * 8192) 0) false 5 true [] [] 0 false in
  PW ps0 6 /\
  r_norm (s_r (run false s (flat_map cops [PPush [97]; PShorten; PPush [98]; PEmpty] ++ [OCommitPath]))) =
    [104;116;116;112;58;47;47;104;47;98;47] /\
  r_norm (s_r (run false (mk_sst (conc ps0 6 301 0) true 5 true [] [] 0 false)
                 (flat_map cops [PPush [67;58]; PShorten; PPush [120]] ++ [OCommitPath]))) =
    [104;116;116;112;58;47;47;104;47;67;58;47;120].
Proof.
  cbv zeta. split; [|split; vm_compute; reflexivity].
  split; try reflexivity; try (cbn; lia).
  - cbn. discriminate.
  - intros k Hk. do 6 (destruct k as [|k]; [lia|]). do 5 (destruct k as [|k]; [reflexivity|]). destruct k; reflexivity.
Qed.

Print Assumptions C01_ser_pathname_pieces.
Print Assumptions C01_ser_shorten.
Print Assumptions C01_ser_authority.
Print Assumptions C01_emit_repr.
Print Assumptions C01_emit_null_repr.
Print Assumptions C01_ser_path_example.
