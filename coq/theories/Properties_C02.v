(* C02 — re-parsing the href of a URL gives the same URL.

   For every URL record produced by a successful parse (any input, any base), parsing its href
   again — with no base or against any base — succeeds and yields the identical record: same
   components, same null-versus-empty status of host, port, query and fragment, same host type
   and same path kind (record equality).  The same holds after any sequence of setter calls,
   with the single exception the Standard itself creates: a protocol change into "file" keeps
   a host "localhost" and a leading "C|" path segment verbatim ([FileQuirk]).

   Structure.  [Canon2 idna u] = [Canon u] (C08) + four more clauses + no [FileQuirk]
   (definitions: Proofs/ReparseDefs.v).
     1. C02_reparse: a record with [Canon2] is reparsed to itself by the scan-based parser model
        [Impl.Parser.do_parse idna true] — for EVERY base (no premise on the base, no premise on
        ICU: the domain clause of [Canon2] says the domain is a fixed point of ToASCII).
     2. C02_parse_canon2, C02_setter_*, C02_update: every result of the Standard's parser
        [Spec.Url.basic_parse], of the API setters except the protocol setter, and of the
        URLSearchParams update steps satisfies [Canon2]; the protocol setter preserves [Canon2w]
        (= everything but the exception) and is the only way to create the exception.
        ICU premises: [idna_ascii_lower] (C08) and [idna_idem] (ToASCII is idempotent on its
        successful outputs).
   (Parser side of 1 is the model of the C++ parser, Impl.Parser; of 2 the Standard's machine,
   Spec.Url: their equality is the parser refinement theorem, a separate property.)
   Proofs: Proofs/ReparseHost.v, ReparsePath.v, ReparseProofs.v (1), Proofs/Canon2Step.v,
   Canon2Proofs.v (2), Proofs/ReparseExamples.v (examples). *)
From Upa Require Import Base.Prelude Spec.CodePoints Spec.Utf Spec.Percent Spec.Ip Spec.Url Spec.UrlEncoded Impl.Parser.
From Upa Require Import Proofs.CanonDefs Proofs.CanonStep Proofs.CanonProofs Proofs.ReparseDefs Proofs.ReparseProofs
  Proofs.Canon2Step Proofs.Canon2Proofs Proofs.ReparseExamples.
From Upa Require Import Properties_C08.
From Coq Require String.
Import String.StringSyntax.
Local Open Scope N_scope.

(* ---------- 0. the predicate, clause by clause ---------- *)
Theorem C02_clauses : forall idna u,
  Canon2 idna u <->
  Canon u /\
  (* (a) no single- or double-dot path segment, the %2e forms included *)
  (forall l, path u = PList l -> Forall (fun seg => is_single_dot seg = false /\ is_double_dot seg = false) l) /\
  (* (b) an opaque path does not start with "/" and, when query and fragment are null, does not end with U+0020 *)
  (forall o, path u = POpaque o ->
     starts_with [47] o = false /\ (query u = None -> fragment u = None -> last_opt o <> Some 32)) /\
  (* (c) host kind fits the scheme; a domain does not end in a number and is a fixed point of ToASCII *)
  match uhost u with
  | None => True
  | Some (HDomain d) => is_special_scheme (scheme u) = true /\ ends_in_number d = false /\ idna d = Some d
  | Some (HIpv4 _) => is_special_scheme (scheme u) = true
  | Some (HOpaque _) => is_special_scheme (scheme u) = false
  | Some (HIpv6 _) => True
  | Some HEmpty => True
  end /\
  (* (d) with a null host the path is not the empty list *)
  (uhost u = None -> path u <> PList []) /\
  (* (e) not the Standard-made exception *)
  ~ FileQuirk u.
Proof.
  intros idna u. unfold Canon2, Extra, nodots, nodots_f, opaque2, opaque2_f, hostkind, hostkind_f,
    nullhost_path, nullhost_path_f, not_dot. tauto.
Qed.

Theorem C02_quirk_def : forall u,
  FileQuirk u <->
  scheme u = s_file /\
  ((exists d, uhost u = Some (HDomain d) /\ d = s_localhost) \/
   (exists a b l, path u = PList ([a; b] :: l) /\ is_ascii_alpha a = true /\ b = 124)).
Proof. exact filequirk_spec. Qed.

(* ---------- 1. reparse ---------- *)
Theorem C02_reparse : forall idna u, Canon2 idna u ->
  forall base, do_parse idna true (serialize u false) base = POk u.
Proof. exact (fun idna u H base => reparse idna u base H). Qed.

(* ---------- 2. every parse result satisfies Canon2 ---------- *)
Theorem C02_parse_canon2 : forall idna, idna_ascii_lower idna -> idna_idem idna ->
  forall input base, cps_ok input ->
  (base = None \/ exists b, base = Some b /\ Canon2 idna b) ->
  forall u, basic_parse idna input base = POk u -> Canon2 idna u.
Proof. exact parse_canon2. Qed.

(* 1 + 2: a URL produced by a successful parse is reparsed to itself, against any base *)
Theorem C02_parse_reparse : forall idna, idna_ascii_lower idna -> idna_idem idna ->
  forall input base, cps_ok input ->
  (base = None \/ exists b, base = Some b /\ Canon2 idna b) ->
  forall u, basic_parse idna input base = POk u ->
  forall base', do_parse idna true (serialize u false) base' = POk u.
Proof.
  exact (fun idna H1 H2 input base Hi Hb u E base' =>
           reparse idna u base' (parse_canon2 idna H1 H2 input base Hi Hb u E)).
Qed.

(* ---------- 3. the API setters ---------- *)
Theorem C02_setter_href : forall idna, idna_ascii_lower idna -> idna_idem idna ->
  forall u v u', cps_ok v -> setter_href idna u v = Some u' -> Canon2 idna u'.
Proof. exact setter_href_canon2. Qed.

Theorem C02_setter_username : forall idna u v, cps_ok v -> Canon2 idna u -> Canon2 idna (setter_username u v).
Proof. exact setter_username_canon2. Qed.

Theorem C02_setter_password : forall idna u v, cps_ok v -> Canon2 idna u -> Canon2 idna (setter_password u v).
Proof. exact setter_password_canon2. Qed.

Theorem C02_setter_host : forall idna, idna_ascii_lower idna -> idna_idem idna ->
  forall u v, cps_ok v -> Canon2 idna u -> Canon2 idna (setter_host idna u v).
Proof. exact setter_host_canon2. Qed.

Theorem C02_setter_hostname : forall idna, idna_ascii_lower idna -> idna_idem idna ->
  forall u v, cps_ok v -> Canon2 idna u -> Canon2 idna (setter_hostname idna u v).
Proof. exact setter_hostname_canon2. Qed.

Theorem C02_setter_port : forall idna, idna_ascii_lower idna -> idna_idem idna ->
  forall u v, cps_ok v -> Canon2 idna u -> Canon2 idna (setter_port idna u v).
Proof. exact setter_port_canon2. Qed.

Theorem C02_setter_pathname : forall idna, idna_ascii_lower idna -> idna_idem idna ->
  forall u v, cps_ok v -> Canon2 idna u -> Canon2 idna (setter_pathname idna u v).
Proof. exact setter_pathname_canon2. Qed.

Theorem C02_setter_search : forall idna, idna_ascii_lower idna -> idna_idem idna ->
  forall u v, cps_ok v -> Canon2 idna u -> Canon2 idna (setter_search idna u v).
Proof. exact setter_search_canon2. Qed.

Theorem C02_setter_hash : forall idna, idna_ascii_lower idna -> idna_idem idna ->
  forall u v, cps_ok v -> Canon2 idna u -> Canon2 idna (setter_hash idna u v).
Proof. exact setter_hash_canon2. Qed.

(* the protocol setter keeps everything but the exception ... *)
Theorem C02_setter_protocol : forall idna, idna_ascii_lower idna -> idna_idem idna ->
  forall u v, cps_ok v -> Canon2w idna u -> Canon2w idna (setter_protocol idna u v).
Proof. exact setter_protocol_canon2w. Qed.

(* ... and creates it only by a change from another scheme into "file" *)
Theorem C02_quirk_only_via_protocol : forall idna u v, cps_ok v -> Canon2w idna u -> ~ FileQuirk u ->
  FileQuirk (setter_protocol idna u v) ->
  is_file u = false /\ scheme (setter_protocol idna u v) = s_file.
Proof.
  intros idna u v Hv Hw Hn Hq. apply (quirk_only_via_protocol idna u v Hv Hw); [|exact Hq].
  unfold FileQuirk in Hn. destruct (file_quirk u); [exfalso; apply Hn; reflexivity|reflexivity].
Qed.

(* so a protocol change that does not go into "file" keeps Canon2 *)
Theorem C02_setter_protocol_nofile : forall idna, idna_ascii_lower idna -> idna_idem idna ->
  forall u v, cps_ok v -> Canon2 idna u ->
  (is_file u = true \/ scheme (setter_protocol idna u v) <> s_file) ->
  Canon2 idna (setter_protocol idna u v).
Proof.
  intros idna H1 H2 u v Hv HC Hor. pose proof (Canon2_w idna u HC) as Hw.
  apply Canon2_intro; [apply setter_protocol_canon2w; assumption|].
  destruct (file_quirk (setter_protocol idna u v)) eqn:E; [|reflexivity]. exfalso.
  destruct (quirk_only_via_protocol idna u v Hv Hw (Canon2_noquirk idna u HC) E) as [A B].
  destruct Hor as [Hf|Hs]; [congruence|exact (Hs B)].
Qed.

(* after the exception has been created, all other setters still keep everything else *)
Theorem C02_setters_canon2w : forall idna, idna_ascii_lower idna -> idna_idem idna ->
  forall u v, cps_ok v -> Canon2w idna u ->
  Canon2w idna (setter_username u v) /\ Canon2w idna (setter_password u v) /\
  Canon2w idna (setter_host idna u v) /\ Canon2w idna (setter_hostname idna u v) /\
  Canon2w idna (setter_port idna u v) /\ Canon2w idna (setter_pathname idna u v) /\
  Canon2w idna (setter_search idna u v) /\ Canon2w idna (setter_hash idna u v).
Proof.
  intros idna H1 H2 u v Hv Hw.
  split; [apply setter_username_canon2w; assumption|].
  split; [apply setter_password_canon2w; assumption|].
  split; [apply setter_host_canon2w; assumption|].
  split; [apply setter_hostname_canon2w; assumption|].
  split; [apply setter_port_canon2w; assumption|].
  split; [apply setter_pathname_canon2w; assumption|].
  split; [apply setter_search_canon2w; assumption|apply setter_hash_canon2w; assumption].
Qed.

(* ---------- 4. the URLSearchParams update steps ---------- *)
Theorem C02_update : forall idna u l, pairs_ok l -> Canon2 idna u ->
  Canon2 idna (set_query u (Some (urlencoded_serialize l))) /\
  Canon2 idna (potentially_strip (set_query u None)).
Proof. exact update_canon2. Qed.

Theorem C02_update_w : forall idna u l, pairs_ok l -> Canon2w idna u ->
  Canon2w idna (set_query u (Some (urlencoded_serialize l))) /\
  Canon2w idna (potentially_strip (set_query u None)).
Proof. exact update_canon2w. Qed.

(* ---------- 5. non-vacuity ---------- *)
(* "https://u:p@h:8443/a/b?q#f" (the record of C08_example) *)
Example C02_example : Canon2 fake_idna ex_url /\
  do_parse fake_idna true (serialize ex_url false) None = POk ex_url.
Proof. exact (conj ex_canon2 (reparse fake_idna ex_url None ex_canon2)). Qed.

(* the ICU premises are satisfiable *)
Example C02_premises_satisfiable : idna_ascii_lower ascii_idna /\ idna_idem ascii_idna.
Proof. exact (conj ascii_idna_ascii_lower ascii_idna_idem). Qed.

(* the exception is real: "http://localhost/C|/x", then protocol := "file" *)
Example C02_quirk_real :
  basic_parse ascii_idna quirk_input None = POk quirk_before /\
  setter_protocol ascii_idna quirk_before (lit "file") = quirk_after /\
  Canon2 ascii_idna quirk_before /\ Canon2w ascii_idna quirk_after /\
  FileQuirk quirk_after /\ ~ Canon2 ascii_idna quirk_after.
Proof.
  exact (conj (proj1 quirk_parse) (conj (proj1 quirk_set) (conj quirk_before_canon2
        (conj (proj1 (proj2 (proj2 quirk_real))) (conj (proj1 (proj2 quirk_real)) (proj2 (proj2 (proj2 quirk_real)))))))).
Qed.

(* ... and such a record is NOT reparsed to itself: "file://localhost/C|/x" reads back with an
   empty host and the drive letter normalized *)
Example C02_quirk_not_reparsed :
  serialize quirk_after false = lit "file://localhost/C|/x" /\
  do_parse ascii_idna true (serialize quirk_after false) None =
    POk (mkurl s_file [] [] (Some HEmpty) None (PList [[67; 58]; [120]]) None None).
Proof. exact quirk_not_reparsed. Qed.

(* each additional clause is needed for reparse: records that satisfy Canon and all clauses but
   one, and are not reparsed to themselves *)
Example C02_clauses_needed :
  Forall (fun u => Canon u /\ do_parse fake_idna true (serialize u false) None <> POk u) needed_examples.
Proof. exact needed_examples_ok. Qed.

(* the fixed-point part of the domain clause is needed too: with a ToASCII that rejects "xn--"
   labels, the Canon record "http://xn--a/" is not reparsed *)
Example C02_domain_fixpoint_needed :
  let u := mkurl (lit "http") [] [] (Some (HDomain (lit "xn--a"))) None (PList [[]]) None None in
  Canon u /\ rej_idna (lit "xn--a") <> Some (lit "xn--a") /\
  do_parse rej_idna true (serialize u false) None <> POk u.
Proof. exact domain_fixpoint_needed. Qed.

Print Assumptions C02_clauses.
Print Assumptions C02_quirk_def.
Print Assumptions C02_reparse.
Print Assumptions C02_parse_canon2.
Print Assumptions C02_parse_reparse.
Print Assumptions C02_setter_href.
Print Assumptions C02_setter_username.
Print Assumptions C02_setter_password.
Print Assumptions C02_setter_host.
Print Assumptions C02_setter_hostname.
Print Assumptions C02_setter_port.
Print Assumptions C02_setter_pathname.
Print Assumptions C02_setter_search.
Print Assumptions C02_setter_hash.
Print Assumptions C02_setter_protocol.
Print Assumptions C02_quirk_only_via_protocol.
Print Assumptions C02_setter_protocol_nofile.
Print Assumptions C02_setters_canon2w.
Print Assumptions C02_update.
Print Assumptions C02_update_w.
Print Assumptions C02_example.
Print Assumptions C02_premises_satisfiable.
Print Assumptions C02_quirk_real.
Print Assumptions C02_quirk_not_reparsed.
Print Assumptions C02_clauses_needed.
Print Assumptions C02_domain_fixpoint_needed.
