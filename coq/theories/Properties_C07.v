(* C07 — the host parser's shortcuts (bracketed IPv6, opaque hosts, the ASCII fast path and
   the early reject in front of ICU) equal full processing by the Standard's host parser.
   UTS #46 ToASCII is the function [idna]; it is constrained only by the two named laws
   H_ascii and H_keep, which are explicit premises of the theorems that need them. *)
From Upa Require Import Base.Prelude Spec.CodePoints Spec.Url Impl.Parser Proofs.HostProofs.
From Coq Require String.
Import String.StringSyntax.
Local Open Scope N_scope.

Section C07.
Variable idna : list N -> option (list N).

(* On a string of ASCII domain characters (ASCII, not a forbidden domain code point; in
   particular no '%') without an "xn--" label, ToASCII returns the ASCII-lowercased copy. *)
Definition H_ascii : Prop :=
  forall s, Forall (fun c => ascii_domain_char c = true) s -> has_xn_label s = false ->
            idna s = Some (lower_str s).

(* The first code point c of the domain that is not an ASCII domain character, when it is ASCII
   and not '%' (hence a forbidden domain code point), survives into a successful output —
   except that '<' '=' '>' may be composed by NFC when the code point directly following this
   occurrence is non-ASCII.  (Occurrence-wise; see Proofs/HostProofs.v for why the formulation
   quantifying over all occurrences of c is too weak: [keep_law_given_too_weak].) *)
Definition H_keep : Prop :=
  forall pre c post r,
    Forall (fun a => ascii_domain_char a = true) pre ->
    c < 128 -> forbidden_domain c = true -> c <> 37 ->
    (60 <= c <= 62 -> match post with [] => True | x :: _ => x < 128 end) ->
    idna (pre ++ c :: post) = Some r -> In c r.

(* 1. opaque hosts: no ICU involved *)
Theorem C07_opaque : forall input, impl_parse_host idna input true = host_parse idna input true.
Proof. exact (opaque_eq idna). Qed.

(* 2. bracketed IPv6 *)
Theorem C07_ipv6 : forall rest b, impl_parse_host idna (91 :: rest) b = host_parse idna (91 :: rest) b.
Proof. exact (ipv6_eq idna). Qed.

(* 3. the ASCII fast path equals full IDNA processing (also for the empty input) *)
Theorem C07_fastpath_all : H_ascii -> forall input,
  Forall (fun c => ascii_domain_char c = true) input -> has_xn_label input = false ->
  impl_parse_host idna input false = host_parse idna input false.
Proof. exact (fastpath_eq idna). Qed.

Theorem C07_fastpath : H_ascii -> forall input, input <> [] ->
  Forall (fun c => ascii_domain_char c = true) input -> has_xn_label input = false ->
  impl_parse_host idna input false = host_parse idna input false.
Proof. exact (fun HA input _ => fastpath_eq idna HA input). Qed.

(* 4. the early reject is sound (and it is what the model does) *)
Theorem C07_precheck : H_keep -> forall input,
  early_reject input = true -> host_parse idna input false = None.
Proof. exact (precheck_sound idna). Qed.

Theorem C07_precheck_model : forall input,
  early_reject input = true -> impl_parse_host idna input false = None.
Proof. exact (impl_early_reject idna). Qed.

(* 5. all cases (the empty non-opaque input included: H_ascii gives idna [] = Some []) *)
Theorem C07_host_all : H_ascii -> H_keep -> forall input is_opaque,
  impl_parse_host idna input is_opaque = host_parse idna input is_opaque.
Proof. exact (host_eq idna). Qed.

Theorem C07_host : H_ascii -> H_keep -> forall input is_opaque,
  input <> [] \/ is_opaque = true ->
  impl_parse_host idna input is_opaque = host_parse idna input is_opaque.
Proof. exact (fun HA HK input b _ => host_eq idna HA HK input b). Qed.

End C07.

(* the early-reject condition, read off the model, in terms of the Standard's class *)
Theorem C07_early_reject_condition : forall input,
  early_reject input =
  match input with
  | [] => false
  | c0 :: _ =>
    negb (c0 =? 91) &&
    match drop_while ascii_domain_char input with
    | [] => false
    | t0 :: t1 =>
        (t0 <? 128) && negb (t0 =? 37) &&
        negb ((60 <=? t0) && (t0 <=? 62) && match t1 with x :: _ => (128 <=? x) || (x =? 37) | [] => false end)
    end
  end.
Proof. exact early_reject_spec. Qed.

(* 6. non-vacuity: a concrete idna satisfies both laws *)
Example C07_laws_satisfiable : H_ascii idna_fake /\ H_keep idna_fake.
Proof. exact (conj fake_ascii_law fake_keep_law). Qed.

Example C07_fake_instances :
  impl_parse_host idna_fake (lit "EXAMPLE.com") false = Some (HDomain (lit "example.com")) /\
  host_parse idna_fake (lit "EXAMPLE.com") false = Some (HDomain (lit "example.com")) /\
  impl_parse_host idna_fake (lit "0X7F.1") false = Some (HIpv4 2130706433) /\
  host_parse idna_fake (lit "0X7F.1") false = Some (HIpv4 2130706433) /\
  early_reject (lit "a b") = true /\ host_parse idna_fake (lit "a b") false = None /\
  early_reject [60; 824] = false /\ early_reject [60; 97; 60; 824] = true.
Proof. vm_compute. repeat split; reflexivity. Qed.

(* a stand-in that composes '<' U+0338 also satisfies the laws (thanks to the exception in
   H_keep); there the model does not reject early and agrees with the Standard *)
Example C07_laws_satisfiable_composing :
  H_ascii idna_comp /\ H_keep idna_comp /\
  early_reject [60; 824] = false /\
  impl_parse_host idna_comp [60; 824] false = Some (HDomain (lit "xn--gdh")) /\
  host_parse idna_comp [60; 824] false = Some (HDomain (lit "xn--gdh")).
Proof. exact (conj comp_ascii_law (conj (keep_law_occ_keep _ comp_keep_law_occ) comp_instance)). Qed.

(* The formulation of H_keep that quantifies the exception over all occurrences of c
   ("c is nowhere in d directly followed by a non-ASCII code point") does NOT justify the
   early reject: a concrete idna satisfies H_ascii and that formulation, the model rejects
   "<a<" U+0338, the Standard's host parser (with that idna) accepts it. *)
Theorem C07_given_H_keep_too_weak :
  ~ (forall idna,
       H_ascii idna ->
       (forall d r c, idna d = Some r -> In c d -> c < 128 -> forbidden_domain c = true -> c <> 37 ->
          (c = 60 \/ c = 61 \/ c = 62 -> ~ exists pre post x, d = pre ++ c :: x :: post /\ 128 <= x) -> In c r) ->
       forall input, early_reject input = true -> host_parse idna input false = None).
Proof. exact keep_law_given_too_weak. Qed.

Print Assumptions C07_opaque.
Print Assumptions C07_ipv6.
Print Assumptions C07_fastpath_all.
Print Assumptions C07_fastpath.
Print Assumptions C07_precheck.
Print Assumptions C07_precheck_model.
Print Assumptions C07_host_all.
Print Assumptions C07_host.
Print Assumptions C07_early_reject_condition.
Print Assumptions C07_laws_satisfiable.
Print Assumptions C07_fake_instances.
Print Assumptions C07_laws_satisfiable_composing.
Print Assumptions C07_given_H_keep_too_weak.
