(* Base definitions shared by the Spec and Impl layers.
   Code units / code points / bytes are [N]; strings are [list N]. *)
From Coq Require Export List NArith ZArith Bool Lia.
Export ListNotations.
Local Open Scope N_scope.

Definition str := list N.

(* ---------- ASCII literals (only for writing constants; proofs use numerals) ---------- *)
From Coq Require Ascii String.
Definition lit (s : String.string) : str := List.map Ascii.N_of_ascii (String.list_ascii_of_string s).
Arguments lit _%string_scope.

(* ---------- generic list helpers ---------- *)

Fixpoint str_eqb (a b : str) : bool :=
  match a, b with
  | [], [] => true
  | x :: a', y :: b' => (x =? y) && str_eqb a' b'
  | _, _ => false
  end.

Definition len (s : str) : N := N.of_nat (length s).

Fixpoint nthN (s : str) (i : nat) : option N :=
  match s, i with
  | [], _ => None
  | x :: _, O => Some x
  | _ :: s', S i' => nthN s' i'
  end.

Definition is_some {A} (o : option A) : bool := match o with Some _ => true | None => false end.
Definition is_none {A} (o : option A) : bool := match o with Some _ => false | None => true end.

Fixpoint take_while (p : N -> bool) (s : str) : str :=
  match s with
  | [] => []
  | x :: s' => if p x then x :: take_while p s' else []
  end.

Fixpoint drop_while (p : N -> bool) (s : str) : str :=
  match s with
  | [] => []
  | x :: s' => if p x then drop_while p s' else s
  end.

(* strictly split on a delimiter: "" -> [""], "a.b" -> ["a";"b"], "a." -> ["a";""] *)
Fixpoint split_on (d : N) (s : str) : list str :=
  match s with
  | [] => [[]]
  | x :: s' =>
      if x =? d then [] :: split_on d s'
      else match split_on d s' with
           | [] => [[x]]          (* unreachable: split_on never returns [] *)
           | p :: ps => (x :: p) :: ps
           end
  end.

Fixpoint join_with (d : str) (l : list str) : str :=
  match l with
  | [] => []
  | [x] => x
  | x :: l' => x ++ d ++ join_with d l'
  end.

Fixpoint starts_with (p s : str) : bool :=
  match p, s with
  | [], _ => true
  | x :: p', y :: s' => (x =? y) && starts_with p' s'
  | _ :: _, [] => false
  end.

Fixpoint last_opt {A} (l : list A) : option A :=
  match l with
  | [] => None
  | [x] => Some x
  | _ :: l' => last_opt l'
  end.

Fixpoint existsbN (p : N -> bool) (s : str) : bool :=
  match s with [] => false | x :: s' => p x || existsbN p s' end.

(* ---------- character classes, as the Standard (Infra) defines them ---------- *)

Definition is_ascii_digit (c : N) : bool := (48 <=? c) && (c <=? 57).
Definition is_ascii_upper_alpha (c : N) : bool := (65 <=? c) && (c <=? 90).
Definition is_ascii_lower_alpha (c : N) : bool := (97 <=? c) && (c <=? 122).
Definition is_ascii_alpha (c : N) : bool := is_ascii_upper_alpha c || is_ascii_lower_alpha c.
Definition is_ascii_alphanumeric (c : N) : bool := is_ascii_digit c || is_ascii_alpha c.
Definition is_ascii_upper_hex (c : N) : bool := is_ascii_digit c || ((65 <=? c) && (c <=? 70)).
Definition is_ascii_lower_hex (c : N) : bool := is_ascii_digit c || ((97 <=? c) && (c <=? 102)).
Definition is_ascii_hex (c : N) : bool := is_ascii_upper_hex c || is_ascii_lower_hex c.
Definition is_c0_control (c : N) : bool := c <=? 31.
Definition is_c0_or_space (c : N) : bool := c <=? 32.
Definition is_tab_or_newline (c : N) : bool := (c =? 9) || (c =? 10) || (c =? 13).

Definition ascii_lower (c : N) : N := if is_ascii_upper_alpha c then c + 32 else c.
Definition lower_str (s : str) : str := List.map ascii_lower s.

(* value of a hex digit (meaningful only when [is_ascii_hex c]) *)
Definition hex_val (c : N) : N :=
  if is_ascii_digit c then c - 48
  else if (65 <=? c) && (c <=? 70) then c - 55
  else c - 87.

(* upper-case hex digit of a value < 16 *)
Definition hex_digit_upper (v : N) : N := if v <? 10 then 48 + v else 55 + v.
Definition hex_digit_lower (v : N) : N := if v <? 10 then 48 + v else 87 + v.

(* ---------- number printing (shortest form), fuelled on the bit size ---------- *)

Fixpoint to_digits_fuel (fuel : nat) (base : N) (digit : N -> N) (n : N) (acc : str) : str :=
  match fuel with
  | O => acc
  | S f =>
      let acc' := digit (n mod base) :: acc in
      if n / base =? 0 then acc' else to_digits_fuel f base digit (n / base) acc'
  end.

(* enough fuel: one step per binary digit is more than one per digit in base >= 2 *)
Definition to_digits (base : N) (digit : N -> N) (n : N) : str :=
  to_digits_fuel (S (N.to_nat (N.size n))) base digit n [].

Definition dec_str (n : N) : str := to_digits 10 hex_digit_lower n.
Definition hex_str_lower (n : N) : str := to_digits 16 hex_digit_lower n.

(* value of a digit string in a radix (no validation) *)
Definition digits_val (radix : N) (s : str) : N :=
  fold_left (fun acc c => acc * radix + hex_val c) s 0.
