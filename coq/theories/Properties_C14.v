(* C14 — percent_encode / percent_decode of the library against the URL Standard
   (UTF-8 percent-encode with a percent-encode set, percent-decode, string percent-decode),
   for the three input encodings.  Proofs are in Proofs/PercentProofs.v. *)
From Upa Require Import Base.Prelude Spec.Utf Spec.CodePoints Spec.Percent
  Impl.Tables Impl.Utf Impl.Percent Proofs.UtfFacts Proofs.PercentProofs.
Local Open Scope N_scope.

(* percent_encode with a user-built no-encode set: the set is consulted for ASCII units only,
   every non-ASCII character is encoded *)
Theorem C14_encode : forall e (no_enc : N -> bool) units, units_ok e units ->
  Impl.Percent.percent_encode e no_enc units =
  Spec.Percent.utf8_percent_encode (fun c => (128 <=? c) || negb (no_enc c)) (spec_decode e units).
Proof. exact percent_encode_spec. Qed.

(* "%" and two ASCII upper hex digits *)
Theorem C14_hex_upper : forall uc, uc < 256 ->
  Impl.Percent.append_percent_encoded_byte uc = Spec.Percent.percent_encode_byte uc.
Proof. exact append_percent_encoded_byte_spec. Qed.

(* the output alphabet: no-encode ASCII characters and %XX triplets *)
Theorem C14_alphabet : forall e no_enc units, units_ok e units ->
  exists chunks, Impl.Percent.percent_encode e no_enc units = concat chunks /\
    Forall (fun ch => (exists c, ch = [c] /\ c < 128 /\ no_enc c = true) \/
                      (exists b, b < 256 /\ ch = Spec.Percent.percent_encode_byte b)) chunks.
Proof. exact percent_encode_alphabet. Qed.

Theorem C14_component : forall e units, units_ok e units ->
  Impl.Percent.encode_url_component e units =
  Spec.Percent.utf8_percent_encode component_encode (spec_decode e units).
Proof. exact encode_url_component_spec. Qed.

(* percent_decode = UTF-8 of (UTF-8 decode without BOM of the string percent-decode) *)
Theorem C14_decode : forall e units, units_ok e units ->
  Impl.Percent.percent_decode e units =
  utf8_encode (Spec.Percent.percent_decode_to_scalars (spec_decode e units)).
Proof. exact percent_decode_spec. Qed.

Theorem C14_decode_ascii_noescape : forall e units,
  Forall (fun c => c < 128) units -> ~ In 37 units -> Impl.Percent.percent_decode e units = units.
Proof. exact percent_decode_ascii_noescape. Qed.

Theorem C14_roundtrip : forall e (no_enc : N -> bool) s, scalars_ok s -> no_enc 37 = false ->
  forall units, units_ok e units -> spec_decode e units = s ->
  Impl.Percent.percent_decode U8 (Impl.Percent.percent_encode e no_enc units) = utf8_encode s.
Proof. exact percent_roundtrip. Qed.

Print Assumptions C14_encode.
Print Assumptions C14_hex_upper.
Print Assumptions C14_alphabet.
Print Assumptions C14_component.
Print Assumptions C14_decode.
Print Assumptions C14_decode_ascii_noescape.
Print Assumptions C14_roundtrip.
